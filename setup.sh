#!/bin/bash
# Offline setup: nothing to install (the engine is plain Python run by /venv/bin/python);
# self-test the reference models and warm the numba cache for the current /repo tree.
set -e
cd "$(dirname "${BASH_SOURCE[0]}")"
mkdir -p evidence replays .cache
./check --selftest
./check --warm
