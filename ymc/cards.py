"""Card generation: complete legacy theory card + observable card from cell coordinates.

A *cell* is a plain JSON-able dict; everything the cards need is derived from it
here so that a replay file (which stores the cell) reproduces the run exactly.
"""
import copy
import math

import numpy as np

CKM_PDG = "0.97428 0.22530 0.003470 0.22520 0.97345 0.041000 0.00862 0.04030 0.999152"

# interpolation grids of the alphabet -----------------------------------------
GRIDS = {
    # name: (xgrid, degree, is_log)
    "G6": ([1e-3, 1e-2, 0.1, 0.3, 0.6, 1.0], 2, True),
    "G9": ([1e-5, 1e-4, 1e-3, 1e-2, 0.1, 0.3, 0.6, 0.85, 1.0], 3, True),
    "L7": ([0.05, 0.2, 0.35, 0.5, 0.7, 0.85, 1.0], 2, False),
    "G13": (
        [1e-4, 3e-4, 1e-3, 3e-3, 1e-2, 3e-2, 0.1, 0.2, 0.35, 0.5, 0.7, 0.85, 1.0],
        4,
        True,
    ),
    "G8": ([1e-4, 1e-3, 1e-2, 0.1, 0.25, 0.5, 0.75, 1.0], 3, True),
    # exotic interpolation set-ups: degree 1, degree 5, very uneven spacing (log and linear), minimal number of nodes for the degree
    "D1": ([1e-3, 1e-2, 0.05, 0.2, 0.5, 0.8, 1.0], 1, True),
    "D5": ([1e-4, 1e-3, 1e-2, 0.05, 0.1, 0.2, 0.4, 0.6, 0.8, 1.0], 5, True),
    "U7": ([1e-3, 2e-3, 0.3, 0.31, 0.5, 0.97, 1.0], 2, True),
    "UL6": ([0.01, 0.02, 0.5, 0.55, 0.9, 1.0], 3, False),
    "M4": ([0.01, 0.1, 0.5, 1.0], 3, True),
}


def grid(name):
    g, d, l = GRIDS[name]
    return list(g), d, l


BASE_THEORY = dict(
    ID=0,
    PTO=0,
    PTODIS=None,
    FNS="ZM-VFNS",
    DAMP=0,
    IC=1,
    IB=0,
    ModEv="EXA",
    ModSV=None,
    XIR=1.0,
    XIF=1.0,
    NfFF=3,
    MaxNfAs=6,
    MaxNfPdf=6,
    Q0=1.0,
    alphas=0.118,
    Qref=91.2,
    nfref=5,
    nf0=3,
    QED=0,
    alphaqed=0.007496252,
    Qedref=1.777,
    SxRes=0,
    SxOrd="LL",
    HQ="POLE",
    mc=1.51,
    Qmc=1.51,
    kcThr=1.0,
    mb=4.92,
    Qmb=4.92,
    kbThr=1.0,
    mt=172.5,
    Qmt=172.5,
    ktThr=1.0,
    CKM=CKM_PDG,
    MZ=91.1876,
    MW=80.398,
    GF=1.1663787e-05,
    SIN2TW=0.23126,
    TMC=0,
    MP=0.938,
    Comments="ymc",
    global_nx=0,
    EScaleVar=1,
    kDIScThr=1.0,
    kDISbThr=1.0,
    kDIStThr=1.0,
    n3lo_cf_variation=0,
    RenScaleVar=True,
    FactScaleVar=True,
    FONLLParts="full",
)

BASE_OBS = dict(
    interpolation_xgrid=GRIDS["G6"][0],
    interpolation_polynomial_degree=2,
    interpolation_is_log=True,
    prDIS="EM",
    ProjectileDIS="electron",
    PolarizationDIS=0.0,
    PropagatorCorrection=0.0,
    TargetDIS="proton",
    NCPositivityCharge=None,
    observables={},
)

SCHEMES = {
    # label: (FNS, NfFF)
    "ZM-VFNS": ("ZM-VFNS", 3),
    "FFNS3": ("FFNS", 3),
    "FFNS4": ("FFNS", 4),
    "FFNS5": ("FFNS", 5),
    "FFN03": ("FFN0", 3),
    "FFN04": ("FFN0", 4),
    "FFN05": ("FFN0", 5),
    "FONLL-FFNS3": ("FONLL-FFNS", 3),
    "FONLL-FFNS4": ("FONLL-FFNS", 4),
    "FONLL-FFNS5": ("FONLL-FFNS", 5),
    "FONLL-FFN03": ("FONLL-FFN0", 3),
    "FONLL-FFN04": ("FONLL-FFN0", 4),
    "FONLL-FFN05": ("FONLL-FFN0", 5),
}

CANONICAL_PROJECTILE = {"EM": "electron", "NC": "electron", "CC": "neutrino"}


def theory(cell):
    """Theory card for a cell (keys: scheme, pto, tmc, theory_overrides ...)."""
    t = copy.deepcopy(BASE_THEORY)
    fns, nfff = SCHEMES[cell.get("scheme", "ZM-VFNS")]
    t["FNS"] = fns
    t["NfFF"] = nfff
    t["PTO"] = cell.get("pto", 0)
    t["TMC"] = cell.get("tmc", 0)
    if "ptodis" in cell:
        t["PTODIS"] = cell["ptodis"]  # order of the DIS calculation when different from the evolution order PTO
    for k, v in cell.get("theory", {}).items():
        if v == "__inf__":
            v = math.inf
        if v == "__del__":
            t.pop(k, None)
        else:
            t[k] = v
    return t


def observables(cell, obs_map=None):
    """Observable card for a cell.

    cell keys used: grid, process, projectile, target, obs (dict name -> kin list)
    """
    o = copy.deepcopy(BASE_OBS)
    g, d, l = grid(cell.get("grid", "G6"))
    o["interpolation_xgrid"] = g
    o["interpolation_polynomial_degree"] = d
    o["interpolation_is_log"] = l
    o["prDIS"] = cell.get("process", "EM")
    o["ProjectileDIS"] = cell.get(
        "projectile", CANONICAL_PROJECTILE[cell.get("process", "EM")]
    )
    if "target" in cell:
        o["TargetDIS"] = copy.deepcopy(cell["target"])
    for k, v in cell.get("obscard", {}).items():
        o[k] = copy.deepcopy(v)
    if obs_map is None:
        obs_map = cell.get("obs", {})
    o["observables"] = copy.deepcopy(obs_map)
    return o


def obsname(kind, heavyness):
    return f"{kind}_{heavyness}"


def kin(x, Q2, y=None):
    d = {"x": float(x), "Q2": float(Q2)}
    if y is not None:
        d["y"] = float(y)
    return d


def lattice_x(gridname, n_extra=True):
    """Kinematic lattice K(G): nodes (not the last), geometric/arith midpoints,
    node*(1±1e-9) for two nodes, xmin*(1+1e-9), 0.999."""
    g, d, l = grid(gridname)
    pts = []
    for a in g[:-1]:
        pts.append(("node", a))
    for a, b in zip(g[:-1], g[1:]):
        m = math.sqrt(a * b) if l else 0.5 * (a + b)
        pts.append(("mid", m))
    for a in (g[1], g[-2]):
        pts.append(("node-", a * (1 - 1e-9)))
        pts.append(("node+", a * (1 + 1e-9)))
    pts.append(("xmin+", g[0] * (1 + 1e-9)))
    pts.append(("near1", 0.999))
    return pts
