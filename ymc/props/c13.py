"""C13 — symmetry and decoupling relations between processes and beams.

Relation explorer: each state is a base cell plus a relation; execute() performs the related real runs.
 S1 NC with the Z decoupled (MZ=inf exactly, MZ=1e20 approximately) == EM (parity-violating kinds exactly 0)
 S2 positron with polarisation P == electron with polarisation -P
 S3 CC: O_antinu[pid] = s * O_nu[-pid], O_e+[pid] = s * O_e-[-pid], s=-1 for parity-violating kinds (xF3), gluon row included; arbitrary CKM
 S4 ZM-VFNS NC/EM (and CC with a CKM matrix of equal rows and columns): rows of active quarks with identical electroweak charges are identical (d,s,b / u,c,t)
"""
import itertools
import math

import numpy as np

from .. import cards, rel, yrun
from ..engine import digest

HISTORY_SWEEP = True
HISTORY_SWEEP_PER_PROCESS = 5  # each state already consists of several real runs
ID = "C13"
SF_KINDS = ["F2", "FL", "F3", "g1", "gL", "g4"]
PV = {"F3", "gL", "g4"}
XS = [0.01, 0.0316227766, 0.3 * (1 + 1e-9)]
CKMS = {
    "pdg": cards.CKM_PDG,
    "identity": "1 0 0 0 1 0 0 0 1",
    "dense": "0.02 0.03 0.05 0.07 0.11 0.13 0.17 0.19 0.23",
    "list": [[0.9, 0.4, 0.1], [0.3, 0.8, 0.2], [0.05, 0.15, 0.95]],
}
RTOL = 1e-13

RULE = (
    "states = (relation S1..S4, kind, heavyness, scheme, PTO, Q2, EW parameters / CKM / polarisation); each state performs the 2-3 related real runs at 3 x points and "
    "compares every order key entry-wise (bit-for-bit where the relation is an identity of floats, else |delta| <= 1e-13*(|terms|+largest entry)); "
    "non-trivial = the compared tensors are non-zero and the varied quantity has an effect on at least one of the related runs (e.g. NC differs from EM at the physical MZ)"
)
ASSUMPTIONS = [
    "grid G6, 3 x points; EW lattice sin2thetaW in {0.23126,0.5}, polarisation in {0,-0.3,1,0.7}, propagator correction in {0,0.1}; CKM in {PDG, identity, dense non-unitary, list-form}",
    "S1 'decoupled' is realised as MZ=inf (eta_gammaZ = 0.0 exactly: bit-identity demanded) and MZ=1e20 (eta ~ 1e-39: agreement within 1e-14 relative plus 1e-30 of the largest entry of the physical NC tensor)",
    "S1-S3 are additionally crossed (PTO 1, two schemes) with TMC modes 1 and 3 and the targets iron and neutron: the symmetries must commute with target-mass corrections and the isospin rotation",
    "S4 is checked for the proton target in ZM-VFNS on rows of quarks that are active at the chosen Q2",
    "explicitly rejected runs (polarised CC) make the state trivial; other exceptions are C16's business (blocked)",
]
BUDGET = {"quick": 1200, "thorough": 5400}


def states(tier, seed):
    out = []
    quick = tier == "quick"
    ptos = [0, 1] if quick else [0, 1, 2]
    # S1
    for k, h, sc, pto, q2, s2w, pol, prc, proj in itertools.product(
        SF_KINDS, ["light", "total", "charm"], ["ZM-VFNS", "FFNS3"] if quick else ["ZM-VFNS", "FFNS3", "FFNS4", "FFN03"], ptos, [30.0] if quick else [4.0, 30.0, 1e4], [0.23126, 0.5], [0.0, -0.3], [0.0, 0.1], ["electron", "positron"]
    ):
        if quick and (s2w == 0.5) != (prc == 0.1):
            continue
        if not quick and pto == 2 and (q2 != 30.0 or s2w == 0.5 or prc == 0.1):
            continue
        out.append({"rel": "S1", "kind": k, "heavyness": h, "scheme": sc, "pto": pto, "Q2": q2, "s2w": s2w, "pol": pol, "prc": prc, "projectile": proj})
    # S1 at N3LO (fl11 flavour class has its own gamma-Z weights), nf=3,4,5
    for k, h, q2, pol, proj in itertools.product(["F2", "FL", "F3", "g4"] if not quick else ["F2", "FL", "F3"], ["light", "total"] if not quick else ["light"], [2.0, 10.0, 30.0], [0.0, -0.8], ["electron", "positron"]):
        if quick and ((q2 == 2.0) or (pol == 0.0) != (proj == "electron")):
            continue
        out.append({"rel": "S1", "kind": k, "heavyness": h, "scheme": "ZM-VFNS", "pto": 3, "Q2": q2, "s2w": 0.23126, "pol": pol, "prc": 0.0, "projectile": proj})
    # S2
    for k, h, sc, pto, q2, pol, proc in itertools.product(SF_KINDS, ["light", "total", "charm"], ["ZM-VFNS", "FFNS3"], ptos, [30.0] if quick else [4.0, 30.0, 1e4], [0.0, -0.3, 1.0, 0.7], ["NC", "EM"]):
        if quick and (pol in (0.0, 0.7) or proc == "EM" and k not in ("F2", "g1")):
            continue
        out.append({"rel": "S2", "kind": k, "heavyness": h, "scheme": sc, "pto": pto, "Q2": q2, "pol": pol, "process": proc})
    out.append({"rel": "S2", "kind": "F2", "heavyness": "light", "scheme": "ZM-VFNS", "pto": 3, "Q2": 30.0, "pol": -0.6, "process": "NC"})
    out.append({"rel": "S2", "kind": "FL", "heavyness": "total", "scheme": "ZM-VFNS", "pto": 3, "Q2": 10.0, "pol": 0.4, "process": "NC"})
    # S3
    for k, h, sc, pto, q2, ckm, pair in itertools.product(
        ["F2", "FL", "F3"], ["light", "total", "charm", "bottom"], ["ZM-VFNS", "FFNS3", "FFNS4"] if quick else ["ZM-VFNS", "FFNS3", "FFNS4", "FFN03", "FONLL-FFNS3"], ptos, [30.0] if quick else [4.0, 30.0, 1e5], list(CKMS), ["nu", "e"]
    ):
        if quick and ckm == "list" and pair == "e":
            continue
        if not quick and pto == 2 and (q2 != 30.0 or ckm in ("identity", "list")):
            continue
        out.append({"rel": "S3", "kind": k, "heavyness": h, "scheme": sc, "pto": pto, "Q2": q2, "ckm": ckm, "pair": pair})
    for k in ("F2", "FL", "F3"):
        out.append({"rel": "S3", "kind": k, "heavyness": "light", "scheme": "ZM-VFNS", "pto": 3, "Q2": 30.0, "ckm": "dense", "pair": "nu"})
        # O(a_s^3) single-flavour (heavylight) kernels: the only order with a CC valence coefficient; both beam pairs
        for h, pair in itertools.product(["charm", "bottom", "total"], ["nu", "e"]):
            out.append({"rel": "S3", "kind": k, "heavyness": h, "scheme": "ZM-VFNS", "pto": 3, "Q2": 30.0, "ckm": "dense" if pair == "e" else "pdg", "pair": pair})
    # S1-S3 crossed with options the symmetries must commute with: target-mass corrections and nuclear targets
    for xtra, h, sc in itertools.product([{"tmc": 1}, {"target": "iron"}, {"tmc": 3, "target": "neutron"}], ["total", "charm"], ["ZM-VFNS", "FFNS3"]):
        for k in ("F2", "F3", "g1"):
            out.append({"rel": "S2", "kind": k, "heavyness": h, "scheme": sc, "pto": 1, "Q2": 30.0, "pol": -0.3, "process": "NC", "xtra": xtra})
            out.append({"rel": "S1", "kind": k, "heavyness": h, "scheme": sc, "pto": 1, "Q2": 30.0, "s2w": 0.5, "pol": -0.3, "prc": 0.1, "projectile": "positron", "xtra": xtra})
        for k, pair in itertools.product(("F2", "F3", "FL"), ("nu", "e")):
            out.append({"rel": "S3", "kind": k, "heavyness": h, "scheme": sc, "pto": 1, "Q2": 30.0, "ckm": "dense", "pair": pair, "xtra": xtra})
    # combinations: PTO 2 + TMC + nuclear target (+ FONLL / FFN0 for the conjugation relation)
    for xtra, sc in itertools.product([{"tmc": 1, "target": "iron"}, {"tmc": 3, "target": "lead"}], ["ZM-VFNS", "FFNS3", "FONLL-FFNS4", "FFN03"]):
        pto = 2 if sc in ("ZM-VFNS", "FFNS3") else 1
        for k in ("F2", "F3"):
            out.append({"rel": "S2", "kind": k, "heavyness": "total", "scheme": sc, "pto": pto, "Q2": 30.0, "pol": 0.7, "process": "NC", "xtra": xtra})
            out.append({"rel": "S3", "kind": k, "heavyness": "total", "scheme": sc, "pto": pto, "Q2": 30.0, "ckm": "dense", "pair": "e", "xtra": xtra})
            out.append({"rel": "S1", "kind": k, "heavyness": "total", "scheme": sc, "pto": pto, "Q2": 30.0, "s2w": 0.5, "pol": -0.3, "prc": 0.1, "projectile": "positron", "xtra": xtra})
    # S4
    for k, h, pto, q2, proc, pol in itertools.product(SF_KINDS, ["light", "total"], ptos if quick else [0, 1, 2, 3], [2.0, 10.0, 30.0, 1e5], ["EM", "NC"], [0.0, 0.7]):
        if quick and (pol == 0.7) != (proc == "NC"):
            continue
        if pto == 3 and (q2 not in (10.0, 1e5) or k in ("g1",)):
            continue
        out.append({"rel": "S4", "kind": k, "heavyness": h, "scheme": "ZM-VFNS", "pto": pto, "Q2": q2, "process": proc, "pol": pol})
    # S3 for the charged-current cross sections: sigma(nubar) on the charge-conjugated PDFs = sigma(nu) (xF3 and its y_- coefficient both change sign)
    for k, sc, ckm, pair in itertools.product(["XSFPFCC", "XSCHORUSCC", "XSNUTEVCC", "XSHERACC"], ["ZM-VFNS", "FFNS3"], ["dense", "pdg"], ["nu", "e"]):
        out.append({"rel": "S3", "kind": k, "heavyness": "total", "scheme": sc, "pto": 1, "Q2": 30.0, "ckm": ckm, "pair": pair})
    # S4 for charged currents: with a CKM matrix whose rows (and columns) are equal, active quarks of the same type are interchangeable in massless schemes
    for k, h, pto, q2, pr in itertools.product(["F2", "FL", "F3"], ["light", "total"], [0, 1, 2], [2.0, 10.0, 30.0, 1e5], ["neutrino", "antineutrino", "electron", "positron"]):
        if pr in ("electron", "positron") and (pto == 2 or q2 in (2.0, 30.0)):
            continue
        out.append({"rel": "S4", "kind": k, "heavyness": h, "scheme": "ZM-VFNS", "pto": pto, "Q2": q2, "process": "CC", "pol": 0.0, "projectile": pr, "ckm": "0.5 0.5 0.5 0.5 0.5 0.5 0.5 0.5 0.5"})
    if quick:
        for k, q2, proc in itertools.product(["F2", "FL", "F3"], [10.0, 1e5], ["EM", "NC"]):
            if proc == "EM" and k == "F3":
                continue
            out.append({"rel": "S4", "kind": k, "heavyness": "light", "scheme": "ZM-VFNS", "pto": 3, "Q2": q2, "process": proc, "pol": 0.7 if proc == "NC" else 0.0})
    return out


def _run(cell, st):
    name = cards.obsname(st["kind"], st["heavyness"])
    c = {"scheme": st["scheme"], "pto": st["pto"]}
    c.update(cell)
    c.update(st.get("xtra", {}))  # top-level keys only (tmc, target): never collides with the relation's own obscard/theory entries
    y = 0.4 if st["kind"].startswith("XS") else None
    return rel.try_run(c, {name: [cards.kin(x, st["Q2"], y) for x in XS]}), name


def _triv(status, n):
    return {"violations": [], "nontrivial": False, "outcome": status, "transitions": n, "info": {"n_" + status.split(":")[0]: 1}}


def _v(st, what, msg):
    fp = dict(st, cls=what)
    return {"fp": fp, "fpkey": {"cls": what, "rel": st["rel"], "kind": st["kind"], "heavyness": st["heavyness"], "scheme": st["scheme"], "pto": st["pto"]}, "msg": msg}


def _close(a, b, rtol=RTOL, atol=0.0):
    """max violation info comparing dict order->(val,err) values with tolerance."""
    if set(a) != set(b):
        return f"order keys differ: {sorted(set(a) ^ set(b))}", 0.0
    worst = 0.0
    for o in sorted(a):
        x, y = a[o][0], b[o][0]
        fin = np.isfinite(x) & np.isfinite(y)
        if np.any(np.isfinite(x) != np.isfinite(y)):
            return f"order {o}: non-finite on one side only", np.inf
        if not fin.any():
            continue
        g = max(np.max(np.abs(x[fin])), np.max(np.abs(y[fin])))
        d = np.abs(x[fin] - y[fin])
        sc = np.abs(x[fin]) + np.abs(y[fin]) + g
        if g > 0:
            worst = max(worst, float(np.max(np.where(d > atol, d / sc, 0.0))))
        if np.any(d > rtol * sc + atol):
            i = int(np.argmax(d - rtol * sc))
            return f"order {o}: |delta| = {d[i]:.3e} (values {x[fin][i]:.10g} vs {y[fin][i]:.10g})", worst
    return None, worst


def _nonzero(T):
    return any(np.any(np.nan_to_num(v[0]) != 0) for v in T.values())


def execute(st):
    yrun.reset_memos()
    return {"S1": _s1, "S2": _s2, "S3": _s3, "S4": _s4}[st["rel"]](st)


def _s1(st):
    oc = {"PolarizationDIS": st["pol"], "PropagatorCorrection": st["prc"]}
    base = {"projectile": st["projectile"], "obscard": oc}
    (o_em, s0), name = _run(dict(base, process="EM", theory={"SIN2TW": st["s2w"]}), st)
    (o_inf, s1), _ = _run(dict(base, process="NC", theory={"SIN2TW": st["s2w"], "MZ": math.inf}), st)
    (o_big, s2), _ = _run(dict(base, process="NC", theory={"SIN2TW": st["s2w"], "MZ": 1e20}), st)
    (o_nc, s3), _ = _run(dict(base, process="NC", theory={"SIN2TW": st["s2w"]}), st)
    if not all(s == "ok" for s in (s0, s1, s2, s3)):
        if len({s0, s1, s2, s3}) > 1:
            return {"violations": [_v(st, "status", f"S1: runs have different status EM={s0} NC(MZ=inf)={s1} NC(MZ=1e20)={s2} NC={s3}")], "nontrivial": True, "outcome": s0 + s1 + s2 + s3, "transitions": 4}
        return _triv(s0, 4)
    viol = []
    nontrivial = False
    worst = 0.0
    for i in range(len(XS)):
        E, I, B, N = (yrun.tensors(o[name][i]) for o in (o_em, o_inf, o_big, o_nc))
        if st["kind"] in PV:
            for lab, T in (("EM", E), ("NC with MZ=inf", I)):
                if _nonzero(T):
                    viol.append(_v(st, "pv-nonzero", f"S1: parity-violating {name} is not exactly 0 for {lab} ({st})"))
        else:
            ok, why = rel.bit_identical(E, I, with_errors=True)
            if not ok:
                viol.append(_v(st, "nc-inf-vs-em", f"S1: {name} NC with MZ=inf is not bit-identical to EM at x={XS[i]} ({st}): {why}"))
        gN = max([float(np.max(np.abs(np.nan_to_num(v[0])))) for v in N.values()] + [0.0])
        why, w = _close(E, B, 1e-14, atol=1e-30 * (1.0 + gN))
        worst = max(worst, w)
        if why:
            viol.append(_v(st, "nc-1e20-vs-em", f"S1: {name} NC with MZ=1e20 differs from EM at x={XS[i]} ({st}): {why}"))
        ok, _ = rel.bit_identical(E, N)
        if not ok and (_nonzero(N)):
            nontrivial = True
        if viol:
            break
    return {"violations": viol[:1], "nontrivial": nontrivial, "outcome": yrun.out_digest(o_nc), "transitions": 4, "info": {"maxrel": worst}}


def _s2(st):
    (o_p, s0), name = _run({"process": st["process"], "projectile": "positron", "obscard": {"PolarizationDIS": st["pol"]}}, st)
    (o_e, s1), _ = _run({"process": st["process"], "projectile": "electron", "obscard": {"PolarizationDIS": -st["pol"]}}, st)
    (o_e2, s2), _ = _run({"process": st["process"], "projectile": "electron", "obscard": {"PolarizationDIS": st["pol"]}}, st)
    if not all(s == "ok" for s in (s0, s1, s2)):
        if len({s0, s1, s2}) > 1:
            return {"violations": [_v(st, "status", f"S2: different status {s0} {s1} {s2}")], "nontrivial": True, "outcome": s0 + s1 + s2, "transitions": 3}
        return _triv(s0, 3)
    viol = []
    nontrivial = False
    worst = 0.0
    for i in range(len(XS)):
        P, E, E2 = (yrun.tensors(o[name][i]) for o in (o_p, o_e, o_e2))
        why, w = _close(P, E, 1e-14)
        worst = max(worst, w)
        if why:
            viol.append(_v(st, "e+P-vs-e-mP", f"S2: {name} {st['process']} positron P={st['pol']} differs from electron P={-st['pol']} at x={XS[i]}: {why}"))
            break
        ok, _ = rel.bit_identical(E, E2)
        if not ok:
            nontrivial = True
    return {"violations": viol[:1], "nontrivial": nontrivial, "outcome": yrun.out_digest(o_p), "transitions": 3, "info": {"maxrel": worst}}


def _s3(st):
    a, b = ("neutrino", "antineutrino") if st["pair"] == "nu" else ("electron", "positron")
    th = {"CKM": CKMS[st["ckm"]]}
    (o_a, s0), name = _run({"process": "CC", "projectile": a, "theory": th}, st)
    (o_b, s1), _ = _run({"process": "CC", "projectile": b, "theory": th}, st)
    if not (s0 == "ok" and s1 == "ok"):
        if s0 != s1:
            return {"violations": [_v(st, "status", f"S3: different status {a}={s0} {b}={s1}")], "nontrivial": True, "outcome": s0 + s1, "transitions": 2}
        return _triv(s0, 2)
    sgn = -1.0 if st["kind"] in PV else 1.0
    perm = [yrun.PIDX[-p] if p not in (21, 22) else yrun.PIDX[p] for p in yrun.PIDS]
    viol = []
    nontrivial = False
    worst = 0.0
    for i in range(len(XS)):
        A, B = yrun.tensors(o_a[name][i]), yrun.tensors(o_b[name][i])
        Bc = {o: (sgn * v[0][perm], v[1][perm]) for o, v in B.items()}
        why, w = _close(A, Bc)
        worst = max(worst, w)
        if why:
            viol.append(_v(st, "charge-conjugation", f"S3: {name} CC {a} vs charge-conjugated {b} (sign {sgn:+.0f}) at x={XS[i]} CKM={st['ckm']} {st['scheme']} pto={st['pto']}: {why}"))
            break
        ok, _ = rel.bit_identical(A, B)
        if not ok and _nonzero(A):
            nontrivial = True
    return {"violations": viol[:1], "nontrivial": nontrivial, "outcome": yrun.out_digest(o_a), "transitions": 2, "info": {"maxrel": worst}}


def _s4(st):
    cell = {"process": st["process"], "obscard": {"PolarizationDIS": st["pol"]}}
    if "projectile" in st:
        cell["projectile"] = st["projectile"]
    if "ckm" in st:
        cell["theory"] = {"CKM": st["ckm"]}
    (o, s0), name = _run(cell, st)
    if s0 != "ok":
        return _triv(s0, 1)
    q2 = st["Q2"]
    nf = 3 + sum(1 for m in (1.51, 4.92, 172.5) if m * m <= q2)
    groups = [[q for q in (1, 3, 5) if q <= nf], [q for q in (2, 4, 6) if q <= nf]]
    viol = []
    nontrivial = False
    worst = 0.0
    for i in range(len(XS)):
        T = yrun.tensors(o[name][i])
        for grp in groups:
            for q in grp[1:]:
                for s in (1, -1):
                    A = {k: (v[0][[yrun.PIDX[s * grp[0]]]], v[1][[yrun.PIDX[s * grp[0]]]]) for k, v in T.items()}
                    B = {k: (v[0][[yrun.PIDX[s * q]]], v[1][[yrun.PIDX[s * q]]]) for k, v in T.items()}
                    # scale with the full tensor
                    why, w = _close_rows(T, s * grp[0], s * q)
                    worst = max(worst, w)
                    if why:
                        viol.append(_v(st, "equal-charge-rows", f"S4: {name} {st['process']} ZM-VFNS pto={st['pto']} Q2={q2} (nf={nf}) x={XS[i]}: rows of pid {s*grp[0]} and {s*q} differ: {why}"))
                    if _nonzero(A):
                        nontrivial = True
        if viol:
            break
    return {"violations": viol[:1], "nontrivial": nontrivial and nf >= 3, "outcome": yrun.out_digest(o), "transitions": 1, "info": {"maxrel": worst}}


def _close_rows(T, p, q):
    worst = 0.0
    for o in sorted(T):
        v = T[o][0]
        if not np.all(np.isfinite(v)):
            continue
        g = np.max(np.abs(v))
        x, y = v[yrun.PIDX[p]], v[yrun.PIDX[q]]
        d = np.abs(x - y)
        sc = np.abs(x) + np.abs(y) + g
        if g > 0:
            worst = max(worst, float(np.max(d / sc)))
        if np.any(d > RTOL * sc):
            i = int(np.argmax(d - RTOL * sc))
            return f"order {o}: |delta| = {d[i]:.3e} ({x[i]:.10g} vs {y[i]:.10g})", worst
    return None, worst


LEVEL_TEXT = (
    "Bounded-exhaustive relation checking on tuples of real runs: for every base cell of the lattice and each of the four relations (Z decoupling, e+/e- with flipped polarisation, "
    "CC charge conjugation with arbitrary CKM, equal-charge quark rows in massless schemes) the related runs are executed and compared on every order key, bit-for-bit where the relation "
    "is an identity of floating-point operations and at 1e-13/1e-14 otherwise; PTO 3 cells (fl11 flavour class) are part of the quick lattice."
    " S1-S3 are crossed with TMC modes and nuclear targets on a sub-lattice."
)
LEVEL_NOTE = "Trusted: numpy arithmetic. EW parameter values, CKM matrices, grids and kinematics outside the stated alphabets are not covered."
TECHNIQUE = "bounded-exhaustive enumeration of base cells; differential relation oracles between tuples of real runs"
