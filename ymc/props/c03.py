"""C03 — every coefficient / splitting kernel is one well-defined distribution.

States: harvest cells (a configuration whose real kernel list is collected with Combiner.collect_elems()
at orders 0..3) and splitting-function cells (every raw label x nf). For every RSL triple found:
 (i)  loc(x_{i+1}) - loc(x_i) + int_{x_i}^{x_{i+1}} sing(z) dz = 0 on a partition of (0, 0.999]
      (the statement loc(x) = delta - int_0^x sing, differenced), evaluated by reference quadrature,
      also per power of nf (evaluations at nf = 0, 1, -1) for the parametrised massless kernels;
 (ii) reg / sing / loc finite real scalars on a z-lattice, and the same scalars when asked a second time;
 (iii) a kernel without singular part has an x-independent local part.
"""
import itertools
import math

import numpy as np
from scipy.integrate import quad

from .. import cards, rel, yrun
from ..engine import digest

ID = "C03"
SF_KINDS = ["F2", "FL", "F3", "g1", "gL", "g4"]
PART = [0.0, 0.05, 0.2, 0.4, 0.6, 0.8, 0.9, 0.95, 0.99, 0.995, 0.999]
ZLAT = [1e-7, 1e-4, 0.01, 0.1, 0.2, 0.3, 0.4, 0.5, 0.6, 0.7, 0.8, 0.9, 0.99, 1 - 1e-6]
TOL_ANALYTIC = 2e-7
TOL_PARAM = 1e-4
ETA_MAX = 1e8
MC, MB, MT = 1.51, 4.92, 172.5

RULE = (
    "states = harvest cells (kind x heavyness x process x scheme x Q2 (mass ratios / nf regimes) x x) whose real kernel lists are collected at orders 0..3, plus every "
    "splitting label x nf 3..6; every RSL triple with a singular or local part is checked on an 11-point partition of [0,0.999] for "
    "loc(b)-loc(a)+int_a^b sing = 0 (2e-7 of the interval's |int sing|+|delta loc| scale for analytic kernels, 1e-4 for the parametrised NNLO/N3LO ones, "
    "also per nf power), and all parts for finiteness on a 14-point z lattice; distinct_outcomes = distinct (class, order, args) kernel cells; "
    "non-trivial = the state contains a kernel with a singular part"
)
ASSUMPTIONS = [
    "kernels are observed through the real kernel lists of Combiner.collect_elems() (and split.raw_labels), with the argument vectors actually passed; classes that no configuration of the lattice instantiates are listed in the evidence (unreached_classes)",
    "reference quadrature: SciPy quad, epsabs 1e-13, epsrel 1e-12 on each partition interval",
    "tolerance classes: 2e-7 (hand-written analytic triples; measured <= 4e-9 except 6e-8 from floating-point cancellation in the heavy CC local part at lambda ~ 4e-5, i.e. top at Q2 ~ 1), 1e-4 (Vogt-type parametrisations with 6-digit printed constants; measured residual <= 2.9e-5 of the interval scale)",
    "massive NC kernels (LeProHQ) are only required to be finite for eta(z) <= 1e8: beyond that LeProHQ is documented (Runner.replace_nans_with_0 docstring) to return NaN/inf",
    "a ValueError/NotImplementedError produced by a literal raise inside a kernel (LeProHQ: high-virtuality limit of x2g1 not known) marks the mass ratio as not admissible: counted, not flagged",
    "finiteness is demanded on z in [1e-7, 1-1e-6] below the kernel's own kinematic limit",
]
BUDGET = {"quick": 900, "thorough": 3600}


def _states_base(tier, seed):
    out = []
    hv = ["total", "charm", "bottom"] if tier == "quick" else ["light", "total", "charm", "bottom", "top"]
    schemes = ["ZM-VFNS", "FFNS3", "FFNS4", "FFN03", "FFN04"] if tier == "quick" else ["ZM-VFNS", "FFNS3", "FFNS4", "FFNS5", "FFN03", "FFN04", "FFN05", "FONLL-FFNS4", "FONLL-FFN03"]
    q2s = [1.2, 7.0, 70.0, 2.3e3, 2.3e5] if tier == "quick" else [1.2, 3.0, 7.0, 30.0, 70.0, 700.0, 2.3e3, 2.3e4, 2.3e5]
    xs = [0.01] if tier == "quick" else [0.01, 0.3]
    for k, h, p, sc, q2, x in itertools.product(SF_KINDS, hv, ["NC", "CC"], schemes, q2s, xs):
        out.append({"t": "harvest", "kind": k, "heavyness": h, "process": p, "scheme": sc, "Q2": q2, "x": x})
    for nf in (3, 4, 5, 6):
        out.append({"t": "split", "nf": nf})
    return out


def _fn_id(f):
    f = getattr(f, "py_func", f)
    return f"{getattr(f, '__module__', '?')}.{getattr(f, '__qualname__', getattr(f, '__name__', '?'))}"


def _is_param(rsl):
    for f in (rsl.sing, rsl.loc, rsl.reg):
        if f is None:
            continue
        m = _fn_id(f)
        if ".light.nnlo." in m or ".light.n3lo." in m:
            return True
    return False


def _finite(v):
    try:
        if isinstance(v, complex):
            return v.imag == 0 and math.isfinite(v.real)
        return bool(np.isfinite(v)) and np.isreal(v)
    except Exception:
        return False


def check_rsl(rsl, label, zmax=1.0, zmin=0.0):
    """returns (violations list of (what, msg), info dict)."""
    viol = []
    info = {"maxdefect_analytic": 0.0, "maxdefect_param": 0.0}
    a_r, a_s, a_l = rsl.args["reg"], rsl.args["sing"], rsl.args["loc"]
    param = _is_param(rsl)
    tol = TOL_PARAM if param else TOL_ANALYTIC
    # (ii) finiteness
    first = {}
    for nm, f, a in (("reg", rsl.reg, a_r), ("sing", rsl.sing, a_s), ("loc", rsl.loc, a_l)):
        if f is None:
            continue
        for z in ZLAT:
            if nm != "loc" and (z >= zmax or z < zmin):
                continue
            try:
                v = f(z, a)
            except Exception as e:
                if isinstance(e, (ValueError, NotImplementedError)) and yrun.raised_explicitly(e):
                    info["n_rejected_explicitly"] = 1
                    return [], info
                viol.append(("raises", f"{label}: {nm}({z}) raised {type(e).__name__}: {str(e)[:80]} [{_fn_id(f)}]"))
                break
            if not _finite(v):
                viol.append(("nonfinite", f"{label}: {nm}({z}) = {v!r} is not a finite real scalar [{_fn_id(f)}]"))
                break
            first.setdefault((nm, z), v)
    if viol:
        return viol, info
    # a part denotes a function of (z, args): asked again after the whole lattice has been evaluated it must return the very same number
    # (a kernel that keeps state between calls - a list it grows, a memo it overwrites - is not one distribution)
    for nm, f, a in (("reg", rsl.reg, a_r), ("sing", rsl.sing, a_s), ("loc", rsl.loc, a_l)):
        if f is None:
            continue
        for (n2, z), v0 in list(first.items()):
            if n2 != nm:
                continue
            v1 = f(z, a)
            if not (v1 == v0 or (v1 != v1 and v0 != v0)):
                viol.append(("not-a-function", f"{label}: {nm}({z}) returned {v0!r} at the first call and {v1!r} when asked again after the lattice had been evaluated [{_fn_id(f)}]"))
                return viol, info
    if rsl.loc is None and rsl.sing is None:
        return viol, info
    if rsl.loc is None and rsl.sing is not None:
        # without a local part the distribution is only defined if the singular part integrates to 0 on every interval: it never does
        I, _ = quad(lambda z: rsl.sing(z, a_s), 0.0, 0.5)
        if abs(I) > 1e-12:
            viol.append(("sing-without-loc", f"{label}: singular part without local part (int_0^0.5 sing = {I:.3e}) [{_fn_id(rsl.sing)}]"))
        return viol, info

    def relation(args_s, args_l):
        try:
            return _relation(args_s, args_l)
        except (ArithmeticError, IndexError) as e:
            # a part that raises at a point of [0,1) (loc is needed at x = 0: its value there is the delta coefficient) is not a finite real scalar
            raise _PartRaised(f"{label}: evaluating loc/sing on the partition raised {type(e).__name__}: {str(e)[:80]} [{_fn_id(rsl.loc)}]")

    def _relation(args_s, args_l):
        res = []
        for a, b in zip(PART[:-1], PART[1:]):
            if rsl.sing is not None:
                I, _ = quad(lambda z: rsl.sing(z, args_s), a, b, epsabs=1e-13, epsrel=1e-12, limit=200)
            else:
                I = 0.0
            la, lb = rsl.loc(a, args_l), rsl.loc(b, args_l)
            res.append((lb - la + I, abs(I) + abs(lb - la)))
        return res

    base = relation(a_s, a_l)
    for i, (d, sc) in enumerate(base):
        rel = abs(d) / sc if sc > 0 else (0.0 if d == 0 else math.inf)
        info["maxdefect_param" if param else "maxdefect_analytic"] = max(info["maxdefect_param" if param else "maxdefect_analytic"], rel if math.isfinite(rel) else 0.0)
        if abs(d) > tol * sc + 1e-13:
            what = "loc-x-dependent-without-sing" if rsl.sing is None else "loc-vs-sing"
            viol.append((what, f"{label}: loc({PART[i+1]}) - loc({PART[i]}) + int sing = {d:.6e} (scale {sc:.3e}, tol {tol:.0e}) [{_fn_id(rsl.loc)} vs {_fn_id(rsl.sing) if rsl.sing is not None else None}]"))
            break
    # per power of nf for parametrised kernels whose first argument is nf
    if param and not viol and len(a_l) >= 1 and len(a_s) >= 1 and a_l[0] == a_s[0] and float(a_l[0]) in (3.0, 4.0, 5.0, 6.0):
        try:
            rels = {}
            for nf in (0.0, 1.0, -1.0):
                s2, l2 = a_s.copy(), a_l.copy()
                s2[0] = nf
                l2[0] = nf
                rels[nf] = relation(s2, l2)
            for i in range(len(PART) - 1):
                d0, s0 = rels[0.0][i]
                dp, sp = rels[1.0][i]
                dm, sm = rels[-1.0][i]
                if not all(map(math.isfinite, (d0, dp, dm))):
                    break
                comps = {"nf^0": (d0, s0), "nf^1": ((dp - dm) / 2, None), "nf^2": ((dp + dm) / 2 - d0, None)}
                # scales per component from the local-part differences per component
                l0 = abs(rsl.loc(PART[i + 1], _with(a_l, 0.0)) - rsl.loc(PART[i], _with(a_l, 0.0)))
                lp = rsl.loc(PART[i + 1], _with(a_l, 1.0)) - rsl.loc(PART[i], _with(a_l, 1.0))
                lm = rsl.loc(PART[i + 1], _with(a_l, -1.0)) - rsl.loc(PART[i], _with(a_l, -1.0))
                l00 = rsl.loc(PART[i + 1], _with(a_l, 0.0)) - rsl.loc(PART[i], _with(a_l, 0.0))
                scs = {"nf^0": 2 * abs(l00), "nf^1": 2 * abs((lp - lm) / 2), "nf^2": 2 * abs((lp + lm) / 2 - l00)}
                for nm, (d, _) in comps.items():
                    sc = scs[nm] + 1e-4 * scs["nf^0"]
                    if abs(d) > TOL_PARAM * sc + 1e-12:
                        viol.append(("loc-vs-sing-nfpower", f"{label}: {nm} component: loc({PART[i+1]}) - loc({PART[i]}) + int sing = {d:.6e} (scale {sc:.3e}) [{_fn_id(rsl.loc)} vs {_fn_id(rsl.sing)}]"))
                        break
                if viol:
                    break
        except Exception:
            pass
    return viol, info


def _with(a, nf):
    b = a.copy()
    b[0] = nf
    return b


def states(tier, seed):
    """quick = the full base lattice; thorough = base lattice + the deep extension."""
    base = _states_base("thorough", seed)
    if tier == "quick":
        return base
    seen = {digest(s) for s in base}
    return base + [s for s in _states_deep(seed) if digest(s) not in seen]


def _states_deep(seed):
    out = []
    for k, h, p, sc, q2, x in itertools.product(SF_KINDS, ["light", "total", "charm", "bottom", "top"], ["NC", "CC", "EM"], ["ZM-VFNS", "FFNS3", "FFNS4", "FFNS5", "FFN03", "FFN04", "FFN05", "FONLL-FFNS4", "FONLL-FFN03"], [1.2, 2.0, 3.0, 7.0, 15.0, 30.0, 70.0, 300.0, 700.0, 2.3e3, 2.3e4, 2.3e5, 1e6], [1e-3, 0.01, 0.1, 0.3, 0.6]):
        out.append({"t": "harvest", "kind": k, "heavyness": h, "process": p, "scheme": sc, "Q2": q2, "x": x})
    return out


class _PartRaised(Exception):
    pass


def execute(st):
    if st["t"] == "split":
        return _split(st)
    import yadism.coefficient_functions as cf

    yrun.reset_memos()
    name = cards.obsname(st["kind"], st["heavyness"])
    cell = dict(st, pto=3, theory={"RenScaleVar": False, "FactScaleVar": False})
    try:
        r = yrun.runner(cell, {name: [cards.kin(st["x"], st["Q2"])]})
        esf = r.observables[name].elements[0]
        elems = cf.Combiner(esf).collect_elems()
    except Exception as e:
        rel.note_failure(e, {k: v for k, v in cell.items() if k != "theory"}, [name])  # anything but an accepted exclusion becomes a violation (engine)
        return {"violations": [], "nontrivial": False, "outcome": [], "transitions": 1, "info": {"n_excluded_by_exception": 1}}
    viol = []
    cellsig = []
    has_sing = False
    agg = {"maxdefect_analytic": 0.0, "maxdefect_param": 0.0}
    nk = 0
    nrej = 0
    for cfe in elems:
        cls = type(cfe.coeff)
        cname = f"{cls.__module__.split('coefficient_functions.')[-1]}.{cls.__name__}"
        for o in range(4):
            try:
                rsl = cfe.coeff[o]()
            except Exception as e:
                info = yrun.classify_exception(e)
                viol.append({"fp": {"cls": "kernel-raises", "class": cname, "order": o, **info}, "fpkey": {"cls": "kernel-raises", "class": cname, "order": o}, "msg": f"{cname} order {o} ({name} {st['process']} {st['scheme']} Q2={st['Q2']}): building the RSL raised {info['exc']}: {info['excmsg']}"})
                continue
            if rsl is None or (rsl.reg is None and rsl.sing is None and rsl.loc is None):
                continue
            nk += 1
            sig = digest([cname, o, [np.round(rsl.args[k], 12).tolist() for k in ("reg", "sing", "loc")], getattr(cfe.coeff, "nf", None)])
            cellsig.append(cname + ":" + str(o) + ":" + sig)
            if rsl.sing is not None:
                has_sing = True
            zmax = 1.0
            zmin = 0.0
            if hasattr(cfe.coeff, "is_below_pair_threshold"):
                m2 = cfe.coeff.m2hq
                zmax = st["Q2"] / (st["Q2"] + 4 * m2)
                # eta(z) = Q2/(4 m2) (1/z - 1) - 1 <= ETA_MAX
                zmin = 1.0 / (1.0 + (ETA_MAX + 1.0) * 4 * m2 / st["Q2"])
            label = f"{cname} order {o} nf={getattr(cfe.coeff, 'nf', '?')} ({name} {st['process']} {st['scheme']} Q2={st['Q2']} x={st['x']})"
            try:
                vs, info = check_rsl(rsl, label, zmax, zmin)
            except _PartRaised as e:
                vs, info = [("raises", str(e))], {k: 0.0 for k in agg}
            for k in agg:
                agg[k] = max(agg[k], info[k])
            nrej += info.get("n_rejected_explicitly", 0)
            for what, msg in vs[:1]:
                fnid = _fn_id(rsl.loc) if rsl.loc is not None else _fn_id(rsl.sing if rsl.sing is not None else rsl.reg)
                if what in ("nonfinite", "raises", "not-a-function"):
                    fnid = msg.split("[")[-1].rstrip("]")
                viol.append({"fp": {"cls": what, "class": cname, "order": o, "function": fnid, "process": st["process"], "scheme": st["scheme"]}, "fpkey": {"cls": what, "function": fnid}, "msg": msg})
    return {"violations": viol, "nontrivial": has_sing, "outcome": cellsig, "transitions": nk * (len(PART) + len(ZLAT)), "sub": max(1, nk), "info": dict(agg, n_kernel_cells=nk, n_kernel_rejected_explicitly=nrej)}


def _split(st):
    from yadism.coefficient_functions import splitting_functions as split

    viol = []
    cellsig = []
    agg = {"maxdefect_analytic": 0.0, "maxdefect_param": 0.0}
    nk = 0
    for order_labels in split.raw_labels:
        for lab, fnc in order_labels.items():
            rsl = fnc(st["nf"])
            nk += 1
            cellsig.append(f"split:{lab}:{st['nf']}")
            try:
                vs, info = check_rsl(rsl, f"splitting kernel {lab} nf={st['nf']}")
            except _PartRaised as e:
                vs, info = [("raises", str(e))], {k: 0.0 for k in agg}
            for k in agg:
                agg[k] = max(agg[k], info[k])
            for what, msg in vs[:1]:
                fnid = _fn_id(rsl.loc) if rsl.loc is not None else _fn_id(rsl.sing if rsl.sing is not None else rsl.reg)
                viol.append({"fp": {"cls": what, "class": "split." + lab, "function": fnid}, "fpkey": {"cls": what, "function": fnid}, "msg": msg})
    return {"violations": viol, "nontrivial": True, "outcome": cellsig, "transitions": nk * (len(PART) + len(ZLAT)), "sub": nk, "info": dict(agg, n_kernel_cells=nk)}


def finalize(results):
    """Report (in the evidence, via a pseudo-measure) classes never reached; not a violation."""
    return []


def bounds(tier):
    import importlib
    import inspect
    import pkgutil

    import yadism.coefficient_functions as cfp
    from yadism.coefficient_functions.partonic_channel import PartonicChannel

    allc = set()
    for m in pkgutil.walk_packages(cfp.__path__, cfp.__name__ + "."):
        try:
            mod = importlib.import_module(m.name)
        except Exception:
            continue
        for n, c in inspect.getmembers(mod, inspect.isclass):
            if issubclass(c, PartonicChannel) and c.__module__ == mod.__name__:
                allc.add(f"{c.__module__.split('coefficient_functions.')[-1]}.{c.__name__}")
    return {"partition": PART, "zlattice": ZLAT, "partonic_channel_classes_defined": len(allc)}


LEVEL_TEXT = (
    "Bounded-exhaustive enumeration of the kernels the library actually builds: for every configuration cell of the harvest lattice (all kinds, heavynesses, NC/CC, "
    "ZM/FFNS/FFN0/FONLL schemes, Q2 spanning nf=3..6 and Q2/m2 from <1 to 1e5) the real kernel list is collected at orders 0..3 and every RSL triple, plus every splitting / "
    "convolved-splitting label for nf=3..6, is checked against the reference statement loc(b)-loc(a) = -int_a^b sing on every interval of a partition of [0,0.999] by independent quadrature "
    "(per power of nf for the parametrised kernels), and for finite real values of all three parts on a z lattice."
)
LEVEL_NOTE = (
    "Trusted: SciPy quad. The relation is checked on 10 intervals, not for every x; a defect confined strictly inside one interval that integrates to zero over it would be missed. "
    "Kernels of configurations outside the harvest lattice are not covered; tolerance classes 2e-7 / 1e-4 as stated in the evidence."
)
TECHNIQUE = "exhaustive enumeration of the kernel cells reachable from a finite configuration lattice, each checked against a reference relation by independent quadrature"
