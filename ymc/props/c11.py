"""C11 — cross sections are the documented combinations of structure functions.

Relation explorer: one state = one real run requesting all cross-section kinds of a family together with
the structure functions of the same heavyness at the same (x,Q2); every order key of every cross section
must equal a*F2 + b*FL + c*xF3 with (a,b,c) from the independent reference ref_xs (docs formulas).
"""
import itertools

import numpy as np

from .. import cards, rel, yrun
from ..engine import digest
from ..ref import ref_xs

HISTORY_SWEEP = True
HISTORY_SWEEP_PER_PROCESS = 5  # each state already consists of several real runs
ID = "C11"
XS_UNPOL = ["XSHERANC", "XSHERANCAVG", "XSHERACC", "XSCHORUSCC", "XSNUTEVCC", "XSNUTEVNU", "FW", "F1", "XSFPFCC"]
PROJ = ["electron", "positron", "neutrino", "antineutrino"]
# (x, Q2, y): full y lattice at the first point, single y elsewhere
POINTS = [(0.05, 4.0, 1e-3), (0.05, 4.0, 0.2), (0.05, 4.0, 0.5), (0.05, 4.0, 1.0), (0.3, 4.0, 0.5), (0.05, 100.0, 0.2), (0.6 * (1 + 1e-9), 100.0, 1.0)]
RTOL = 1e-13

RULE = (
    "states = (family unpol/pol, process, projectile, heavyness, scheme, PTO, TMC); each state is ONE real run with every cross-section kind of the family at 7 (x,Q2,y) points "
    "(y in {1e-3,0.2,0.5,1}) plus F2/FL/F3 (g4/gL/g1) of the same heavyness at the same (x,Q2); every order key (incl. scale-variation keys) of every cross section is compared with "
    "a*F2+b*FL+c*xF3, (a,b,c) from ref_xs, |delta| <= 1e-13*sum|terms|; reported x,Q2,y must equal the request; non-trivial = at least one compared cross-section tensor is non-zero "
    "and (a,b,c) has at least two non-zero entries"
)
ASSUMPTIONS = [
    "grid G6; 7 kinematic points; schemes ZM-VFNS and FFNS3; M_P, M_W, G_F of the base card; off-label process/projectile combinations are included (the algebra must still hold)",
    "the XSFPFCC normalisation is G_F^2/(4 pi x (1+Q2/MW2)^2) (standard neutrino CC cross section); docs/source/theory/intro.rst printed 8 pi before the docs fix",
    "only operator values are compared: the code combines quadrature error estimates with signed coefficients, which is not documented",
    "polarised kinds with CC are rejected by the dispatch (counted, trivial)",
]
BUDGET = {"quick": 1200, "thorough": 5400}


def states(tier, seed):
    out = []
    if tier == "quick":
        combos = itertools.product(["EM", "NC", "CC"], PROJ, ["total", "light", "charm"], ["ZM-VFNS", "FFNS3"], [0, 1], [0, 1])
    else:
        combos = itertools.product(["EM", "NC", "CC"], PROJ, ["total", "light", "charm", "bottom"], ["ZM-VFNS", "FFNS3", "FFNS4", "FFN03"], [0, 1, 2], [0, 1, 3])
    for p, pr, h, sc, pto, tmc in combos:
        for fam in ("unpol", "pol"):
            if tier == "thorough" and pto == 2 and (sc in ("FFNS4", "FFN03") or tmc == 3 or (sc == "FFNS3" and h in ("total", "charm", "bottom") and pr in ("positron", "antineutrino"))):
                continue
            out.append({"family": fam, "process": p, "projectile": pr, "heavyness": h, "scheme": sc, "pto": pto, "tmc": tmc})
    if tier == "quick":
        for p, pr in itertools.product(["NC", "CC"], ["electron", "antineutrino"]):
            out.append({"family": "unpol", "process": p, "projectile": pr, "heavyness": "light", "scheme": "ZM-VFNS", "pto": 2, "tmc": 0})
            out.append({"family": "pol", "process": p, "projectile": pr, "heavyness": "light", "scheme": "ZM-VFNS", "pto": 2, "tmc": 0})
    # non-default target mass, W mass and Fermi constant (they enter the normalisations and y+)
    for p, pr, tmc in (("CC", "neutrino", 0), ("CC", "antineutrino", 1), ("NC", "electron", 0)):
        out.append({"family": "unpol", "process": p, "projectile": pr, "heavyness": "total", "scheme": "ZM-VFNS", "pto": 1, "tmc": tmc, "theory": {"MP": 2.0, "MW": 50.0, "GF": 2.5e-5}})
        out.append({"family": "unpol", "process": p, "projectile": pr, "heavyness": "charm", "scheme": "FFNS3", "pto": 0, "tmc": tmc, "theory": {"MP": 0.5, "MW": 200.0, "GF": 1e-6}})
    # nuclear target, polarised beam, propagator correction: the combination coefficients do not depend on them
    for p, pr, fam in (("NC", "positron", "unpol"), ("CC", "antineutrino", "unpol"), ("NC", "electron", "pol"), ("CC", "electron", "unpol")):
        out.append({"family": fam, "process": p, "projectile": pr, "heavyness": "total", "scheme": "FFNS3", "pto": 1, "tmc": 1, "target": "iron", "obscard": {"PolarizationDIS": 0.5, "PropagatorCorrection": 0.05}})
        out.append({"family": fam, "process": p, "projectile": pr, "heavyness": "light", "scheme": "ZM-VFNS", "pto": 1, "tmc": 0, "target": {"Z": 0.3, "A": 1.0}, "obscard": {"PolarizationDIS": -1.0}})
    # combinations: TMC mode 3 + FFN0 / FONLL + polarised anti-lepton beam + nuclear target + scale variations off
    for p, pr, sc in (("NC", "positron", "FFN03"), ("CC", "antineutrino", "FONLL-FFNS4"), ("NC", "positron", "FONLL-FFN03"), ("CC", "positron", "FFNS4")):
        out.append({"family": "unpol", "process": p, "projectile": pr, "heavyness": "total", "scheme": sc, "pto": 1, "tmc": 3, "target": "lead", "obscard": {"PolarizationDIS": 0.7}, "theory": {"RenScaleVar": False, "FactScaleVar": False, "MP": 1.2}})
        out.append({"family": "unpol", "process": p, "projectile": pr, "heavyness": "charm", "scheme": sc, "pto": 1, "tmc": 2, "target": "neutron"})
    # O(a_s^3) light kernels (fl11 flavour class, N3LO order keys incl. all scale-variation keys)
    for p, pr in (("NC", "positron"), ("CC", "neutrino"), ("EM", "electron")):
        st = {"family": "unpol", "process": p, "projectile": pr, "heavyness": "light", "scheme": "ZM-VFNS", "pto": 3, "tmc": 0}
        if st not in out:
            out.append(st)
    # request layouts: cross sections listed BEFORE the structure functions, which are requested with the same kinematic dicts (y included), and every
    # cross-section point requested twice - the structure functions a cross section is built from are shared objects of the run, and the combination
    # must hold whatever was assembled from them before
    for lay in ("xs-first", "dup", "rev"):
        for (p, pr), (h, sc), tmc in itertools.product([("EM", "electron"), ("NC", "positron"), ("CC", "neutrino"), ("CC", "antineutrino")], [("total", "ZM-VFNS"), ("charm", "FFNS3")], [0, 1]):
            for fam in ("unpol", "pol"):
                if lay == "rev" and fam == "pol":
                    continue  # a single cross-section kind: no order to reverse
                out.append({"family": fam, "process": p, "projectile": pr, "heavyness": h, "scheme": sc, "pto": 1, "tmc": tmc, "layout": lay})
    # every cross-section kind as the FIRST one requested at the shared points (rotations of the kind list): whatever the first request leaves behind is what the others meet
    for k in range(1, len(XS_UNPOL)):
        for p, pr in (("NC", "positron"), ("CC", "neutrino"), ("NC", "neutrino")):
            out.append({"family": "unpol", "process": p, "projectile": pr, "heavyness": "total", "scheme": "ZM-VFNS", "pto": 1, "tmc": 0, "layout": f"rot{k}"})
    return out


def execute(st):
    yrun.reset_memos()
    h = st["heavyness"]
    if st["family"] == "unpol":
        xs_kinds = XS_UNPOL
        sfk = ("F2", "FL", "F3")
    else:
        xs_kinds = ["g5"]
        sfk = ("g4", "gL", "g1")
    obs = {}
    lay = st.get("layout", "sf-first")
    if lay.startswith("rot"):
        k = int(lay[3:])
        xs_kinds = list(xs_kinds[k:]) + list(xs_kinds[:k])
    if lay == "rev":
        xs_kinds = list(reversed(xs_kinds))  # together with the default order every ordered pair (kind A requested before kind B) occurs
    sfpts = sorted({(x, q2) for x, q2, y in POINTS})
    if lay == "xs-first":
        shared = [cards.kin(x, q2, y) for x, q2, y in POINTS]
        for k in xs_kinds:
            obs[f"{k}_{h}"] = shared
        for k in sfk:
            obs[f"{k}_{h}"] = shared
    else:
        for k in sfk:
            obs[f"{k}_{h}"] = [cards.kin(x, q2) for x, q2 in sfpts]
        for k in xs_kinds:
            obs[f"{k}_{h}"] = [cards.kin(x, q2, y) for x, q2, y in POINTS] * (2 if lay == "dup" else 1)
    out, status = rel.try_run({k: v for k, v in st.items() if k != "layout"}, obs)
    if status != "ok":
        return {"violations": [], "nontrivial": False, "outcome": status, "transitions": 1, "info": {"n_" + status.split(":")[0]: 1}}
    th = dict(cards.BASE_THEORY)
    th.update(st.get("theory", {}))
    viol = []
    maxrel = 0.0
    nontrivial = False
    if lay == "xs-first":
        SF = {k: {(x, q2): yrun.tensors(out[f"{k}_{h}"][i]) for i, (x, q2, y) in enumerate(POINTS)} for k in sfk}
        for k in sfk:  # the same (x,Q2) requested with different y must give the same structure function
            for i, (x, q2, y) in enumerate(POINTS):
                if not rel.bit_identical(yrun.tensors(out[f"{k}_{h}"][i]), SF[k][(x, q2)])[0]:
                    viol.append(_v(st, k, "sf-depends-on-y", f"{k}_{h} at (x,Q2)={(x, q2)} differs between requests that carry different y (cross sections listed first, shared kinematic dicts)"))
                    break
    else:
        SF = {k: {pt: yrun.tensors(out[f"{k}_{h}"][i]) for i, pt in enumerate(sfpts)} for k in sfk}
    ncomp = 0
    for k in xs_kinds:
        for i, (x, q2, y) in enumerate(POINTS * (2 if lay == "dup" else 1)):
            res = out[f"{k}_{h}"][i]
            if float(res.x) != x or float(res.Q2) != q2 or float(res.y) != y:
                viol.append(_v(st, k, "kinematics", f"{k}_{h}[{i}] reports x={res.x} Q2={res.Q2} y={res.y}, requested {(x, q2, y)}"))
                continue
            a, b, c = ref_xs.coeffs(k, x, q2, y, st["projectile"], th["MP"], th["MW"], th["GF"])
            T = yrun.tensors(res)
            terms = []
            for coef, kk in zip((a, b, c), sfk):
                if coef == 0.0:
                    continue
                terms.append({o: (coef * v[0], abs(coef) * v[1]) for o, v in SF[kk][(x, q2)].items()})
            bad, stt = rel.compare_sum(T, terms, RTOL)
            ncomp += 1
            maxrel = max(maxrel, stt["maxrel"])
            if stt["nonzero"] and sum(1 for cc in (a, b, c) if cc != 0) >= 2:
                nontrivial = True
            if bad:
                key, what, val, where = bad[0]
                viol.append(_v(st, k, "combination", f"{k}_{h} {st['process']}/{st['projectile']} {st['scheme']} pto={st['pto']} tmc={st['tmc']} at (x,Q2,y)={(x, q2, y)}: order {key}: {what} by {val:.3e} from a*{sfk[0]}+b*{sfk[1]}+c*{sfk[2]} with (a,b,c)=({a:.6g},{b:.6g},{c:.6g})"))
    return {"violations": viol[:2], "nontrivial": nontrivial, "outcome": yrun.out_digest(out), "transitions": 1, "sub": max(1, ncomp), "info": {"maxrel": maxrel, "n_compared_tensors": ncomp}}


def _v(st, kind, what, msg):
    fp = dict(st, cls=what, xskind=kind)
    return {"fp": fp, "fpkey": {"cls": what, "xskind": kind, "process": st["process"], "projectile": st["projectile"], "tmc": st["tmc"]}, "msg": msg}


LEVEL_TEXT = (
    "Bounded-exhaustive relation checking: for every cell of (family x process x projectile x heavyness x scheme x PTO x TMC) one real run requests all ten cross-section kinds "
    "at 7 (x,Q2,y) points together with the structure functions of the same heavyness; every order key of every cross-section tensor must equal the linear combination whose "
    "coefficients come from an independent transcription of the documented formulas, at 1e-13 relative to the sum of absolute terms, and carry the requested x, Q2, y."
)
LEVEL_NOTE = (
    "Trusted: numpy arithmetic; ref_xs is my transcription of docs/source/theory/intro.rst (self-tested on closed-form values). Kinematics outside the 7 points, other grids and other "
    "values of M_P, M_W, G_F are not covered."
)
TECHNIQUE = "bounded-exhaustive enumeration of run configurations; relation oracle against an independent reference for the combination coefficients"
