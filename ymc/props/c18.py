"""C18 — compiled numerical kernels agree with their Python semantics.

State types
 kernel : one per numba dispatcher defined under yadism (found by walking the package; the count is checked against the number of njit decorators in the
          sources): compiled(...) vs py_func(...) on an argument lattice (1e-11 relative; both finite or both not);
 caller : harvest cells (as C03): for every RSL part that is a dispatcher, with the argument vector the calling class really passes:
          py_func must not raise (IndexError = read outside the vector) and the compiled kernel must return the same value when the vector is a view
          followed in memory by NaN sentinels (a compiled out-of-bounds read is silent);
 e2e    : batches of configuration cells run in this process (JIT on, production mode) and in a fresh subprocess with NUMBA_DISABLE_JIT=1 (test-suite mode);
          operators compared entry-wise, |delta| <= 1e-9*scale + 30*(err_jit + err_py); an exception in one mode only is a violation.
"""
import importlib
import itertools
import json
import math
import os
import pkgutil
import re
import subprocess
import sys
import tempfile

import numpy as np

from .. import cards, rel, yrun
from ..engine import VERIF, digest

ID = "C18"
ZL = [1e-6, 1e-4, 1e-3, 0.01, 0.05, 0.1, 0.2, 0.3, 0.4, 0.5, 0.6, 0.7, 0.8, 0.9, 0.95, 0.99, 0.999, 1 - 1e-6]
XSPECIAL = [-3.0, -1.0, -0.999, -0.5, -1e-3, 0.0, 1e-3, 0.25, 0.5, 0.618, 0.75, 0.9, 0.999, 1.0, 1.5, 2.0, 5.0]
GENERIC_ARGS = [[3.0, 1.0, 0.0], [4.0, 2.5, 1.0], [5.0, -0.7, 2.0], [6.0, 6.9, 0.0]]
SF_KINDS = ["F2", "FL", "F3", "g1", "gL", "g4"]

RULE = (
    "kernel states = every numba dispatcher defined under yadism x argument lattice (18 z in (0,1), 17 points incl. branch points for scalar special functions, generic argument vectors of length 3 "
    "with nf=3..6); caller states = harvest cells (kind x heavyness x process x scheme x Q2) whose RSL parts are called with the argument vectors the calling class passes (IndexError / NaN-sentinel check); "
    "e2e states = batches of (kind x process x scheme x PTO) cells run with JIT on and, in a fresh subprocess, with JIT off; non-trivial = a kernel returned a finite non-zero value / the batch has non-zero operators"
)
ASSUMPTIONS = [
    "agreement compiled vs interpreter: |delta| <= 1e-11*max(1,|value|) (measured worst 7e-14); where the interpreter raises a domain error (log of a non-positive number etc.) the compiled kernel must return a non-finite value",
    "end-to-end tolerance 1e-9*sum|entries scale| + 30*(reported quadrature errors): last-bit kernel differences are amplified by round-off-limited adaptive quadrature up to its own error estimate",
    "plain Python closures (massive kernels calling LeProHQ/adani) are not numba kernels and are outside C18",
    "NUMBA_BOUNDSCHECK is not used: the NaN-sentinel view detects compiled out-of-bounds reads of the argument vector without recompiling",
]
BUDGET = {"quick": 1800, "thorough": 7200}


def _dispatchers():
    import yadism
    from numba.core.registry import CPUDispatcher

    found = {}
    for m in pkgutil.walk_packages(yadism.__path__, "yadism."):
        try:
            mod = importlib.import_module(m.name)
        except Exception:
            continue
        for n, o in vars(mod).items():
            if isinstance(o, CPUDispatcher) and o.py_func.__module__ == mod.__name__:
                found[f"{mod.__name__}.{n}"] = o
    return found


def _count_decorators():
    src = os.path.join(os.environ.get("VERIF_REPO", "/repo"), "src", "yadism")
    n = 0
    for root, _, files in os.walk(src):
        for f in files:
            if f.endswith(".py"):
                with open(os.path.join(root, f)) as fh:
                    n += len(re.findall(r"^\s*@(?:nb|numba)\.njit", fh.read(), flags=re.M))
    return n


def _states_base(tier, seed):
    out = [{"t": "census"}]
    names = sorted(_dispatchers())
    for n in names:
        out.append({"t": "kernel", "name": n})
    hv = ["total", "charm"] if tier == "quick" else ["light", "total", "charm", "bottom"]
    schemes = ["ZM-VFNS", "FFNS3", "FFN03"] if tier == "quick" else ["ZM-VFNS", "FFNS3", "FFNS4", "FFN03", "FFN04", "FONLL-FFNS4"]
    q2s = [7.0, 2.3e3] if tier == "quick" else [1.2, 7.0, 70.0, 2.3e3, 2.3e5]
    for k, h, p, sc, q2 in itertools.product(SF_KINDS, hv, ["NC", "CC"], schemes, q2s):
        out.append({"t": "caller", "kind": k, "heavyness": h, "process": p, "scheme": sc, "Q2": q2})
    out.append({"t": "caller-split"})
    # end to end
    cells = []
    for k, p, sc, pto in itertools.product(SF_KINDS, ["EM", "NC", "CC"], ["ZM-VFNS", "FFNS3"], [0, 1, 2, 3]):
        if p == "CC" and k in ("g1", "gL", "g4"):
            continue
        if pto >= 2 and sc == "FFNS3" and tier == "quick":
            continue
        if pto == 3 and tier == "quick" and p == "EM":
            continue
        h = "total" if pto <= 1 else "light"
        cells.append({"kind": k, "heavyness": h, "process": p, "scheme": sc, "pto": pto, "tmc": 0})
    for k, p, tmc in itertools.product(["F2", "FL", "F3", "g1"], ["NC", "CC"], [1, 3]):
        if p == "CC" and k == "g1":
            continue
        cells.append({"kind": k, "heavyness": "total", "process": p, "scheme": "ZM-VFNS", "pto": 1, "tmc": tmc})
    # interpolation settings alternate INSIDE one process (log / linear, degree 2 / 3): whatever a compiled kernel froze at its first compilation
    # (a module global, a closure cell) shows as a difference to the interpreter, which re-reads it on every call
    for k, p, tmc in (("F2", "NC", 0), ("FL", "CC", 0), ("F3", "CC", 1), ("g1", "NC", 3)):
        out.append({"t": "e2e", "cells": [{"kind": k, "heavyness": "total", "process": p, "scheme": "ZM-VFNS", "pto": 1, "tmc": tmc, "grid": g} for g in ("G6", "L7", "G9", "L7", "G6")]})
    if tier == "thorough":
        for k, p, sc in itertools.product(["F2", "FL", "F3"], ["NC", "CC"], ["FFN03", "FONLL-FFNS4", "FFNS4"]):
            cells.append({"kind": k, "heavyness": "total", "process": p, "scheme": sc, "pto": 1, "tmc": 0})
    cells.sort(key=lambda c: (c["pto"], c["kind"], c["process"]))
    bs = 6
    # heavier cells in smaller batches
    i = 0
    while i < len(cells):
        n = bs if cells[i]["pto"] <= 1 else (3 if cells[i]["pto"] == 2 else 2)
        out.append({"t": "e2e", "cells": cells[i : i + n]})
        i += n
    return out


def _v(st, what, name, msg):
    return {"fp": {"t": st["t"], "cls": what, "name": name}, "fpkey": {"cls": what, "name": name}, "msg": msg}


def states(tier, seed):
    """quick = the full base lattice; thorough = base lattice + the deep extension."""
    base = _states_base("thorough", seed)
    if tier == "quick":
        return base
    seen = {digest(s) for s in base}
    return base + [s for s in _states_deep(seed) if digest(s) not in seen]


ZL_DENSE = sorted(set([10.0**-k for k in range(1, 9)] + [1 - 10.0**-k for k in range(1, 9)] + [i / 64.0 for i in range(1, 64)] + [0.123456789, 0.987654321, 1 / 3.0, 2 / 3.0]))
ARGS_DENSE = [[float(nf), a, b] for nf in (3, 4, 5, 6) for a, b in ((1.0, 0.0), (2.5, 1.0), (-0.7, 2.0), (6.9, 0.0), (0.01, -1.0), (37.0, 3.0), (1e-4, 0.5), (250.0, -2.0))]


def _states_deep(seed):
    """dense argument lattice for every kernel (91 z x 32 argument vectors; 17+91 points for scalar kernels) and caller cells on more schemes / Q2."""
    out = [{"t": "kernel", "name": n, "dense": 1} for n in sorted(_dispatchers())]
    for k, h, p, sc, q2 in itertools.product(SF_KINDS, ["light", "total", "charm", "bottom", "top"], ["NC", "CC", "EM"], ["ZM-VFNS", "FFNS3", "FFNS4", "FFNS5", "FFN03", "FFN04", "FFN05", "FONLL-FFNS4", "FONLL-FFN03"], [1.2, 3.0, 7.0, 30.0, 70.0, 700.0, 2.3e3, 2.3e4, 2.3e5, 1e6]):
        out.append({"t": "caller", "kind": k, "heavyness": h, "process": p, "scheme": sc, "Q2": q2})
    return out


def execute(st):
    return {"census": _census, "kernel": _kernel, "caller": _caller, "caller-split": _caller_split, "e2e": _e2e}[st["t"]](st)


def _census(st):
    nd = len(_dispatchers())
    nj = _count_decorators()
    viol = []
    if nd != nj:
        viol.append(_v(st, "census", "count", f"{nj} njit decorators in the sources but {nd} dispatchers found by introspection: a kernel escapes the check"))
    return {"violations": viol, "nontrivial": True, "outcome": f"{nd}/{nj}", "transitions": 1, "info": {"n_dispatchers": nd}}


def _call(f, args):
    try:
        v = f(*args)
        return "ok", v
    except (ValueError, ZeroDivisionError, OverflowError, FloatingPointError) as e:
        return "domain", type(e).__name__
    except IndexError as e:
        return "index", str(e)
    except Exception as e:  # noqa
        if type(e).__name__ == "TypingError":
            return "typing", str(e)[:80]  # a lazily compiled kernel refuses the guessed argument types: not an admissible argument
        raise


def _kernel(st):
    d = _dispatchers()[st["name"]]
    if d.nopython_signatures:
        sig = d.nopython_signatures[0]
        ats = [str(a) for a in sig.args]
    else:
        # lazily compiled kernel (no declared signature): the lattice is chosen from the arity of the Python function, the calling conventions of this code base
        sig = "(lazy)"
        ats = {1: ["float64"], 2: ["float64", "array(float64, 1d, C)"], 3: ["int64", "int64", "float64"]}.get(d.py_func.__code__.co_argcount, ["?"])
    lat = []
    dense = bool(st.get("dense"))
    if len(ats) == 2 and ats[0] == "float64" and "rray" in ats[1]:
        for z in (ZL_DENSE if dense else ZL):
            for a in (ARGS_DENSE if dense else GENERIC_ARGS):
                lat.append((z, np.array(a, dtype=float)))
    elif ats == ["float64"]:
        for x in XSPECIAL + (ZL_DENSE + [-x for x in ZL_DENSE] + [1 + x for x in ZL_DENSE] if dense else ZL):
            lat.append((float(x),))
    elif ats == ["int64", "int64", "float64"]:
        for n, p in ((1, 1), (1, 2), (2, 1), (2, 2), (3, 1), (1, 3)):
            for x in [-1.0, -0.5, 0.0, 1e-3, 0.3, 0.5, 0.7, 0.999, 1.0]:
                lat.append((n, p, float(x)))
    else:
        return {"violations": [_v(st, "unknown-signature", st["name"], f"{st['name']}: signature {sig} has no argument lattice")], "nontrivial": True, "outcome": "?", "transitions": 0}
    viol = []
    worst = 0.0
    nz = 0
    for args in lat:
        sp, vp = _call(d.py_func, args)
        sc, vc = _call(d, args)
        if sp == "index" or sc == "index" or sc == "typing":
            # generic vectors may be shorter than what a kernel needs only if it needs > 3 entries: reported by the caller states; skip here
            continue
        # classes: finite value / not finite (NaN, inf or a domain error such as log of a non-positive number, division by zero)
        fa = sp == "ok" and bool(np.isfinite(complex(vp)))
        fb = sc == "ok" and bool(np.isfinite(complex(vc)))
        if fa != fb:
            viol.append(_v(st, "finiteness", st["name"], f"{st['name']}{tuple(args)}: interpreter gives {vp!r} ({sp}), compiled gives {vc!r} ({sc}): one is a finite value, the other is not"))
            continue
        if not fa:
            continue
        a, b = complex(vp), complex(vc)
        dlt = abs(a - b)
        tol = 1e-11 * max(1.0, abs(a))
        worst = max(worst, dlt / max(1.0, abs(a)))
        if a != 0:
            nz += 1
        if dlt > tol:
            viol.append(_v(st, "value", st["name"], f"{st['name']}{tuple(args)}: interpreter {vp!r}, compiled {vc!r} (|delta| {dlt:.3e})"))
    return {"violations": viol[:2], "nontrivial": nz > 0, "outcome": digest([st["name"], nz]), "transitions": 2 * len(lat), "sub": max(1, len(lat)), "info": {"maxrel_kernel": worst}}


def _check_part(st, label, f, args, viol):
    from numba.core.registry import CPUDispatcher

    if not isinstance(f, CPUDispatcher):
        return 0
    n = 0
    for z in (0.05, 0.4, 0.9):
        sp, vp = _call(f.py_func, (z, args))
        n += 1
        if sp == "index":
            viol.append(_v(st, "args-too-short", label, f"{label}: the interpreter raises IndexError with the argument vector {args.tolist()} passed by the calling class (the compiled kernel reads outside the array silently)"))
            return n
        if sp != "ok":
            continue
        big = np.full(len(args) + 8, np.nan)
        big[: len(args)] = args
        view = big[: len(args)]
        sc, vc = _call(f, (z, view))
        sc2, vc2 = _call(f, (z, args))
        if sc == "ok" and sc2 == "ok":
            a, b, c = complex(vp), complex(vc), complex(vc2)
            # same compiled code, same visible array contents: any difference (also NaN vs finite) can only come from memory beyond the vector
            if np.isfinite(a) and not (b == c or (np.isnan(b) and np.isnan(c))):
                viol.append(_v(st, "out-of-bounds-read", label, f"{label}: compiled result changes from {vc2!r} to {vc!r} (interpreter {vp!r}) when the argument vector {args.tolist()} is followed in memory by NaN sentinels: the kernel reads outside the vector it is given"))
                return n
            if np.isfinite(a) and (not np.isfinite(c) or abs(a - c) > 1e-11 * max(1, abs(a))):
                viol.append(_v(st, "caller-value", label, f"{label}: with the caller's arguments {args.tolist()} interpreter {vp!r} vs compiled {vc2!r}"))
                return n
    return n


def _caller(st):
    import yadism.coefficient_functions as cf

    yrun.reset_memos()
    name = cards.obsname(st["kind"], st["heavyness"])
    cell = dict(st, pto=3, theory={"RenScaleVar": False, "FactScaleVar": False})
    try:
        r = yrun.runner(cell, {name: [cards.kin(0.01, st["Q2"])]})
        esf = r.observables[name].elements[0]
        elems = cf.Combiner(esf).collect_elems()
    except Exception as e:
        rel.note_failure(e, {k: v for k, v in cell.items() if k != "theory"}, [name])  # anything but an accepted exclusion becomes a violation (engine)
        return {"violations": [], "nontrivial": False, "outcome": "excluded", "transitions": 1, "info": {"n_excluded_by_exception": 1}}
    viol = []
    n = 0
    sigs = []
    for cfe in elems:
        cls = type(cfe.coeff)
        cname = f"{cls.__module__.split('coefficient_functions.')[-1]}.{cls.__name__}"
        for o in range(4):
            try:
                rsl = cfe.coeff[o]()
            except Exception:
                continue
            if rsl is None:
                continue
            for part in ("reg", "sing", "loc"):
                f = getattr(rsl, part)
                if f is None:
                    continue
                k = _check_part(st, f"{cname} order {o} {part} [{getattr(getattr(f, 'py_func', f), '__name__', '?')}]", f, rsl.args[part], viol)
                n += k
                if k:
                    sigs.append(f"{cname}:{o}:{part}")
    return {"violations": viol[:3], "nontrivial": n > 0, "outcome": sigs, "transitions": n, "sub": max(1, len(sigs))}


def _caller_split(st):
    from yadism.coefficient_functions import splitting_functions as split
    from yadism.esf import tmc

    viol = []
    n = 0
    for nf in (3, 4, 5, 6):
        for d in split.raw_labels:
            for lab, fnc in d.items():
                rsl = fnc(nf)
                for part in ("reg", "sing", "loc"):
                    f = getattr(rsl, part)
                    if f is not None:
                        n += _check_part(st, f"split {lab} nf={nf} {part}", f, rsl.args[part], viol)
    # TMC kernels are called with args=[xi]
    for kname in ("h2_ker", "g2_ker", "h3_ker", "k2_ker"):
        n += _check_part(st, f"tmc.{kname}", getattr(tmc, kname), np.array([0.37]), viol)
    return {"violations": viol[:3], "nontrivial": True, "outcome": f"split:{n}", "transitions": n}


_CHILD = r"""
import json, sys, os
import numpy as np
sys.path.insert(0, os.environ["YMC_VERIF"])
from ymc import yrun, cards
cells = json.loads(sys.argv[1])
res = {}
for i, c in enumerate(cells):
    name = cards.obsname(c["kind"], c["heavyness"])
    try:
        out = yrun.run(c, {name: [cards.kin(0.05, 30.0), cards.kin(0.3, 30.0)]})
        for j, r in enumerate(out[name]):
            for k, (v, e) in yrun.tensors(r).items():
                res[f"{i}|{j}|{k}|v"] = v
                res[f"{i}|{j}|{k}|e"] = e
        res[f"{i}|status"] = np.array("ok")
    except Exception as e:
        info = yrun.classify_exception(e)
        res[f"{i}|status"] = np.array(f"{info['exc']} at {info['site']}: {info['excmsg']}")
np.savez(sys.argv[2], **res)
"""


def _e2e(st):
    yrun.reset_memos()
    cells = st["cells"]
    # JIT on: this process
    mine = {}
    for i, c in enumerate(cells):
        name = cards.obsname(c["kind"], c["heavyness"])
        try:
            out = yrun.run(c, {name: [cards.kin(0.05, 30.0), cards.kin(0.3, 30.0)]})
            for j, r in enumerate(out[name]):
                for k, (v, e) in yrun.tensors(r).items():
                    mine[f"{i}|{j}|{k}|v"] = v
                    mine[f"{i}|{j}|{k}|e"] = e
            mine[f"{i}|status"] = "ok"
        except Exception as e:
            info = yrun.classify_exception(e)
            mine[f"{i}|status"] = f"{info['exc']} at {info['site']}: {info['excmsg']}"
    tmp = tempfile.mkdtemp(prefix="ymc18_", dir="/var/tmp")
    path = os.path.join(tmp, "py.npz")
    env = dict(os.environ)
    env["NUMBA_DISABLE_JIT"] = "1"
    env["YMC_VERIF"] = VERIF
    viol = []
    try:
        p = subprocess.run([sys.executable, "-c", _CHILD, json.dumps(cells), path], env=env, capture_output=True, text=True, timeout=3000)
        if p.returncode != 0 or not os.path.exists(path):
            return {"violations": [], "harness_error": f"JIT-off child failed: {p.stderr[-800:]}", "nontrivial": False, "outcome": "child-failed", "transitions": 0}
        other = dict(np.load(path, allow_pickle=False))
    finally:
        import shutil

        shutil.rmtree(tmp, ignore_errors=True)
    worst = 0.0
    nz = False
    for i, c in enumerate(cells):
        sj, sp = mine[f"{i}|status"], str(other[f"{i}|status"])
        label = f"{c['kind']}_{c['heavyness']} {c['process']} {c['scheme']} pto={c['pto']} tmc={c['tmc']}"
        if (sj == "ok") != (sp == "ok"):
            viol.append(_v(st, "modes-disagree-on-outcome", label, f"{label}: with compilation enabled the run is '{sj}', with compilation disabled '{sp}'"))
            continue
        if sj != "ok":
            continue
        keys = [k for k in mine if k.startswith(f"{i}|") and k.endswith("|v")]
        for k in keys:
            a, b = mine[k], other.get(k)
            if b is None:
                viol.append(_v(st, "keys", label, f"{label}: order key {k} missing in the JIT-off run"))
                continue
            ea, eb = mine[k[:-1] + "e"], other[k[:-1] + "e"]
            fin = np.isfinite(a) & np.isfinite(b)
            if np.any(np.isfinite(a) != np.isfinite(b)):
                viol.append(_v(st, "finiteness", label, f"{label} {k}: non-finite entries differ between the modes"))
                continue
            g = np.max(np.abs(a[fin])) if fin.any() else 0.0
            if g > 0:
                nz = True
            d = np.abs(a - b)[fin]
            tol = 1e-9 * (np.abs(a[fin]) + g) + 30 * (np.abs(ea[fin]) + np.abs(eb[fin]))
            if g > 0:
                worst = max(worst, float(np.max(d) / g))
            if np.any(d > tol):
                idx = int(np.argmax(d - tol))
                viol.append(_v(st, "e2e-value", label, f"{label} {k}: JIT on {a[fin][idx]:.12g} vs JIT off {b[fin][idx]:.12g} (|delta| {d[idx]:.3e}, tolerance {tol[idx]:.3e})"))
                break
    return {"violations": viol[:3], "nontrivial": nz, "outcome": digest([mine[f"{i}|status"] for i in range(len(cells))] + [float(np.sum(np.nan_to_num(v))) for k, v in sorted(mine.items()) if k.endswith("|v")]), "transitions": 2 * len(cells), "sub": len(cells), "info": {"maxrel_e2e": worst}}


LEVEL_TEXT = (
    "Bounded-exhaustive enumeration of programs x inputs: every numba dispatcher defined under yadism (census cross-checked against the number of njit decorators in the sources) is executed compiled and "
    "interpreted on an argument lattice; every RSL part that is a dispatcher is executed with the argument vector its calling class really passes (kernel lists harvested over a configuration lattice at orders 0..3), "
    "interpreted (IndexError) and compiled on a NaN-sentinel view (silent out-of-bounds read); and a lattice of configuration cells is run end-to-end in production mode and, in a fresh interpreter, with compilation disabled."
)
LEVEL_NOTE = "Trusted: numba's py_func attribute as 'the same function executed by the interpreter'; tolerance policy as stated. Arguments outside the lattices are not covered."
TECHNIQUE = "exhaustive enumeration of compiled kernels x argument lattice and of callers' argument vectors; differential execution compiled vs interpreter (kernel level and end-to-end)"
