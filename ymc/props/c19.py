"""C19 — predictions are stable under refinement of the interpolation grid.

State = (grid family ladder coarse -> medium -> fine, degree, kind, process, scheme, PTO): the real runs on the three grids (and on the fine grid with the
neighbouring degree) at a common x lattice; per-order predictions for smooth analytic PDF families.
Oracle (an accuracy bound, not an identity): with err_k(x) = |P_k(x) - P_fine(x)| / (S(x) + 0.01 max_x S), S(x) = sum over partons and nodes of |O f| on the fine grid (cancellation-safe) and E_k = max_x err_k(x):
  E_medium <= max(0.9 E_coarse, 1e-3) (measured shrink factors <= 0.68 where the medium error exceeds the floor),  E_medium <= 7e-2,  E_coarse <= 0.3 (<= 0.5 incl. its own last areas),  degree d vs d+1 on the fine grid <= 2e-2,
  node continuity |P(node) - P(node(1±1e-9))| <= 1e-6 scale + 10 x reported quadrature errors, |P(node) - P(node(1+1e-6))| <= 3e-4 scale + the same.
  Absolute bounds are taken over the bulk lattice (a coarse grid is not adequate inside its own last area); the convergence ratio is also demanded incl. the mid-points of the last two coarse areas.
"""
import itertools
import os
import math

import numpy as np

from .. import cards, pdfs, rel, yrun
from ..engine import digest

ID = "C19"

RULE = (
    "states = (grid family in {make_grid log, lambert, linear on [0.05,1]} x degree x kind x process x scheme x PTO); per state runs on coarse/medium/fine grids (and fine with degree+1) at the x lattice "
    "{1e-3,0.01,0.1,0.3,0.6,0.8} (linear: x>=0.1) + second-to-last coarse node and its (1±1e-9), (1+1e-6) neighbours + mid-points of the last two coarse areas + the smallest node x_min (shared by all grids of a family) and its (1+1e-9), (1+1e-6) neighbours; per-order predictions for 3 smooth PDFs; "
    "sup-norm error bounds as stated in the module docstring; non-trivial = E_coarse > 1e-7 (the grids really differ in accuracy) and the prediction is non-zero"
)
ASSUMPTIONS = [
    "this is the one property whose oracle is an accuracy bound: thresholds carry margins >= 2.5 over the values measured on the unchanged tree (recorded in the evidence as measured maxima)",
    "smooth PDF families x f = N x^a (1-x)^b (1+c x) with (a,b,c) in {(0.5,1,1.5), (-0.1,3,0), (0.8,2,4)}; 'adequate grids': make_grid(15,10)/(25,15)/(40,20), lambertgrid 20/35/50, linear 15/30/60 on [0.05,1] asked only for x >= 0.1",
    "errors are measured in the sup norm over the x lattice (point-wise monotonicity is not demanded: a coarse grid can be accidentally accurate at one x)",
]
BUDGET = {"quick": 1800, "thorough": 7200}
FAMS = {
    "log": [("make_grid", 15, 10), ("make_grid", 25, 15), ("make_grid", 40, 20)],
    "lambert": [("lambertgrid", 20), ("lambertgrid", 35), ("lambertgrid", 50)],
    "linear": [("linear", 15), ("linear", 30), ("linear", 60)],
}
PDFS = [(0.5, 1.0, 1.5), (-0.1, 3.0, 0.0), (0.8, 2.0, 4.0)]
LIM = {"ratio": 0.9, "floor": 1e-3, "medium": 7e-2, "coarse": 0.3, "coarse_top": 0.5, "degree": 2e-2, "node9": 1e-6, "node6": 3e-4}


def _grid(spec):
    from eko import interpolation

    if spec[0] == "make_grid":
        return interpolation.make_grid(spec[1], spec[2], x_min=1e-4).tolist(), True
    if spec[0] == "lambertgrid":
        return interpolation.lambertgrid(spec[1], x_min=1e-4).tolist(), True
    return np.linspace(0.05, 1.0, spec[1]).tolist(), False


def _states_base(tier, seed):
    out = []
    if tier == "quick":
        combos = itertools.product(["log", "linear"], [3], ["F2", "FL", "F3", "g1"], ["EM", "CC"], ["ZM-VFNS"], [0, 1])
    else:
        combos = itertools.product(["log", "lambert", "linear"], [2, 3, 4], ["F2", "FL", "F3", "g1"], ["EM", "CC"], ["ZM-VFNS", "FFNS3"], [0, 1, 2])
    for fam, deg, k, p, sc, pto in combos:
        if p == "CC" and k == "g1" or p == "EM" and k == "F3":
            continue
        if tier == "quick" and fam == "linear" and (pto == 0 or k in ("g1",)):
            continue
        if tier == "thorough" and pto == 2 and (sc == "FFNS3" or fam == "lambert" or deg == 2):
            continue
        out.append({"family": fam, "degree": deg, "kind": k, "process": p, "scheme": sc, "pto": pto, "heavyness": "total"})
    if tier == "quick":
        out.append({"family": "log", "degree": 4, "kind": "F2", "process": "EM", "scheme": "ZM-VFNS", "pto": 1, "heavyness": "total"})
        out.append({"family": "lambert", "degree": 3, "kind": "F2", "process": "EM", "scheme": "ZM-VFNS", "pto": 1, "heavyness": "total"})
        out.append({"family": "log", "degree": 3, "kind": "F2", "process": "EM", "scheme": "FFNS3", "pto": 1, "heavyness": "charm"})
        out.append({"family": "log", "degree": 2, "kind": "F3", "process": "CC", "scheme": "ZM-VFNS", "pto": 2, "heavyness": "total"})
    return out


def _xf(pdf, x):
    a, b, c = pdf
    return x**a * (1 - x) ** b * (1 + c * x)


class _P:
    def __init__(self, abc):
        self.abc = abc

    def hasFlavor(self, pid):
        return pid != 22

    def xfxQ2(self, pid, x, Q2):
        n = {21: 2.0}.get(pid, 0.3 + 0.1 * abs(pid) + (0.25 if pid > 0 else 0.0))
        return n * _xf(self.abc, x) if x < 1 else 0.0


def _v(st, what, msg):
    fp = dict(st, cls=what)
    return {"fp": fp, "fpkey": {"cls": what, "family": st.get("family", st.get("flip")), "degree": st.get("degree", 0), "kind": st["kind"], "process": st["process"], "pto": st["pto"]}, "msg": msg}


def _predict(out, name, grid, i, pdf, order, part=0):
    res = out[name][i]
    T = yrun.tensors(res)
    v = T[(order, 0, 0, 0)][min(part, 1)]
    f = np.array([[pdf.xfxQ2(pid, x, res.Q2) / x if pdf.hasFlavor(pid) else 0.0 for x in grid] for pid in yrun.PIDS])
    if part == 1:
        return float(np.sum(np.abs(v) * np.abs(f)))
    if part == 2:  # cancellation-safe scale: sum of the absolute contributions
        return float(np.sum(np.abs(T[(order, 0, 0, 0)][0]) * np.abs(f)))
    return float(np.sum(v * f))


def _states_cross(seed):
    """two adequate grids of DIFFERENT families (fine log vs fine linear vs fine lambert) must agree: an error common to every grid of one family is invisible inside that family."""
    out = []
    for k, p, sc, h, pto in [("F2", "EM", "ZM-VFNS", "total", 1), ("F3", "CC", "ZM-VFNS", "total", 1), ("FL", "NC", "ZM-VFNS", "total", 1), ("g1", "NC", "ZM-VFNS", "total", 1), ("F2", "EM", "FFNS3", "charm", 1), ("F3", "CC", "FFNS3", "charm", 1),
                             ("F2", "EM", "FFN03", "charm", 1), ("F3", "CC", "FFN03", "charm", 1), ("F2", "NC", "FONLL-FFN03", "total", 1), ("FL", "CC", "FONLL-FFNS4", "total", 1), ("F2", "NC", "ZM-VFNS", "total", 2)]:
        out.append({"cross": 1, "family": "log", "degree": 3, "kind": k, "process": p, "scheme": sc, "pto": pto, "heavyness": h})
    return out


def _cross(st):
    name = cards.obsname(st["kind"], st["heavyness"])
    xs = [0.1, 0.3, 0.6, 0.8]
    outs = {}
    for fam in ("log", "linear", "lambert"):
        g, lg = _grid(FAMS[fam][2])
        c = {"process": st["process"], "scheme": st["scheme"], "pto": st["pto"], "theory": {"RenScaleVar": False, "FactScaleVar": False}, "obscard": {"interpolation_xgrid": g, "interpolation_polynomial_degree": st["degree"], "interpolation_is_log": lg}}
        out, s = rel.try_run(c, {name: [cards.kin(x, 30.0) for x in xs]})
        if s != "ok":
            return {"violations": [], "nontrivial": False, "outcome": s, "transitions": 1}
        outs[fam] = (out, g)
    viol, info, nontrivial = [], {}, False
    for abc in PDFS:
        pdf = _P(abc)
        for o in range(st["pto"] + 1):
            P = {fam: np.array([_predict(out, name, g, i, pdf, o) for i in range(len(xs))]) for fam, (out, g) in outs.items()}
            sabs = np.array([_predict(outs["log"][0], name, outs["log"][1], i, pdf, o, part=2) for i in range(len(xs))])
            if sabs.max() == 0:
                continue
            nontrivial = True
            den = sabs + 0.01 * sabs.max()
            for fam in ("linear", "lambert"):
                e = float(np.max(np.abs(P[fam] - P["log"]) / den))
                info[f"Ecross_{fam}_o{o}"] = max(info.get(f"Ecross_{fam}_o{o}", 0.0), e)
                if e > LIM["degree"]:
                    i = int(np.argmax(np.abs(P[fam] - P["log"]) / den))
                    viol.append(_v(st, "cross-family", f"{name} {st['process']} {st['scheme']} order {o} pdf {abc}: the fine {fam} grid gives {P[fam][i]:.8g} at x={xs[i]}, the fine log grid {P['log'][i]:.8g} (rel {e:.2e} > {LIM['degree']})"))
    seen, uv = set(), []
    for v_ in viol:
        if v_["msg"][:60] not in seen:
            seen.add(v_["msg"][:60])
            uv.append(v_)
    return {"violations": uv[:3], "nontrivial": nontrivial, "outcome": digest([round(v, 10) for v in info.values()]), "transitions": 3, "sub": len(PDFS) * (st["pto"] + 1), "info": info}


def _states_combo(seed):
    """grid family x scheme combinations that select other integration kernels: asymptotic schemes carry the only singular-without-regular coefficient (intrinsic matching), massive CC the shifted convolution point."""
    out = []
    for fam, (k, p, sc, h) in itertools.product(["linear", "log"], [("F2", "EM", "FFN03", "charm"), ("F3", "CC", "FFN03", "charm"), ("F2", "NC", "FONLL-FFN03", "total")]):
        out.append({"family": fam, "degree": 3, "kind": k, "process": p, "scheme": sc, "pto": 1, "heavyness": h})
    return out


# --- same nodes, other interpolation settings, ONE process -------------------------------------------------------------------------
# "results from two adequate grids agree" presupposes that a grid's result is a function of that grid alone. Two cards whose grids differ only in
# the log flag, the degree, or by a relative 1e-9 in one inner node are run one after the other in this process (all order keys, scale variations
# and TMC on); the second must be bit-identical to the same card run alone in a fresh interpreter.
_FLIPS = {
    "log->lin": (("nodes", True, 3), ("nodes", False, 3)),
    "lin->log": (("nodes", False, 3), ("nodes", True, 3)),
    "deg3->deg2": (("nodes", True, 3), ("nodes", True, 2)),
    "deg2->deg4": (("nodes", True, 2), ("nodes", True, 4)),
    "moved-node": (("nodes", True, 3), ("moved", True, 3)),
    "linear-moved-node": (("lnodes", False, 2), ("lmoved", False, 2)),
}
_FLIP_CHILD = r"""
import json, sys, os
sys.path.insert(0, os.environ["YMC_VERIF"])
from ymc import yrun
cell, obs = json.loads(sys.argv[1])
out = yrun.run(cell, obs)
print("DIGEST", yrun.out_digest(out))
"""


def _states_flip(seed):
    out = []
    for pair in _FLIPS:
        for k, p, sc, pto, tmc in (("F2", "EM", "ZM-VFNS", 1, 0), ("F3", "CC", "ZM-VFNS", 1, 0), ("FL", "NC", "ZM-VFNS", 2, 0), ("F2", "NC", "ZM-VFNS", 1, 1), ("F2", "EM", "FFNS3", 1, 0)):
            out.append({"flip": pair, "kind": k, "process": p, "scheme": sc, "pto": pto, "tmc": tmc, "heavyness": "total"})
    return out


def _flip_grid(which):
    from eko import interpolation

    if which in ("nodes", "moved"):
        g = interpolation.make_grid(15, 10, x_min=1e-4).tolist()
    else:
        g = np.linspace(0.05, 1.0, 15).tolist()
    if which in ("moved", "lmoved"):
        g[len(g) // 2] *= 1 + 1e-9
    return g


def _flip(st):
    import json as _json
    import subprocess
    import sys

    name = cards.obsname(st["kind"], st["heavyness"])
    obs = {name: [cards.kin(x, 30.0) for x in (0.1, 0.3, 0.6)]}
    digs = []
    cells = []
    for which, lg, deg in _FLIPS[st["flip"]]:
        c = {"process": st["process"], "scheme": st["scheme"], "pto": st["pto"], "tmc": st["tmc"], "theory": {"RenScaleVar": True, "FactScaleVar": True},
             "obscard": {"interpolation_xgrid": _flip_grid(which), "interpolation_polynomial_degree": deg, "interpolation_is_log": lg}}
        out, s = rel.try_run(c, obs)
        if s != "ok":
            return {"violations": [], "nontrivial": False, "outcome": s, "transitions": len(digs) + 1, "info": {"n_" + s.split(":")[0]: 1}}
        digs.append(yrun.out_digest(out))
        cells.append(c)
    env = dict(os.environ)
    env["YMC_VERIF"] = os.path.dirname(os.path.dirname(os.path.dirname(os.path.abspath(__file__))))
    p = subprocess.run([sys.executable, "-c", _FLIP_CHILD, _json.dumps([cells[1], obs])], env=env, capture_output=True, text=True, timeout=1800)
    fresh = [ln.split()[1] for ln in p.stdout.splitlines() if ln.startswith("DIGEST")]
    if p.returncode != 0 or not fresh:
        raise RuntimeError(f"fresh-interpreter run failed: {p.stderr[-400:]}")
    viol = []
    if fresh[0] != digs[1]:
        a, b = _FLIPS[st["flip"]]
        viol.append(_v(st, "grid-history", f"{name} {st['process']} {st['scheme']} pto={st['pto']} tmc={st['tmc']}: the run on grid {b} gives other operators after a run on grid {a} in the same process than alone in a fresh interpreter (digest {digs[1]} vs {fresh[0]}): a grid's result is not a function of that grid"))
    return {"violations": viol, "nontrivial": True, "outcome": digest(digs), "transitions": 3}


def states(tier, seed):
    """quick = the full base lattice; thorough = base lattice + the deep extension."""
    base = _states_base("thorough", seed) + _states_combo(seed) + _states_cross(seed) + _states_flip(seed)
    if tier == "quick":
        return base
    seen = {digest(s) for s in base}
    return base + [s for s in _states_deep(seed) if digest(s) not in seen]


def _states_deep(seed):
    out = []
    for fam, deg, k, p, sc, pto in itertools.product(["log", "lambert", "linear"], [2, 3, 4, 5], ["F2", "FL", "F3", "g1", "gL", "g4"], ["EM", "NC", "CC"], ["ZM-VFNS", "FFNS3"], [0, 1, 2]):
        if p == "CC" and k in ("g1", "gL", "g4") or p == "EM" and k in ("F3", "gL", "g4"):
            continue
        if pto == 2 and (sc == "FFNS3" or fam == "lambert" or deg == 2):
            continue  # not an adequate ladder at O(a_s^2): with quadratic interpolation / 50 lambert points even the finest grid is 1.5% off (measured), so it cannot serve as the reference
        out.append({"family": fam, "degree": deg, "kind": k, "process": p, "scheme": sc, "pto": pto, "heavyness": "total"})
    return out


def execute(st):
    yrun.reset_memos()
    if st.get("cross"):
        return _cross(st)
    if st.get("flip"):
        return _flip(st)
    fam = FAMS[st["family"]]
    grids = [_grid(s) for s in fam]
    coarse = grids[0][0]
    xs = [x for x in (1e-3, 0.01, 0.1, 0.3, 0.6, 0.8) if x >= (0.1 if st["family"] == "linear" else 1e-3)]
    node = coarse[-2]  # second-to-last node: its (1+eps) neighbours lie in the last area of the coarse grid
    node_pts = [node, node * (1 - 1e-9), node * (1 + 1e-9), node * (1 + 1e-6)]
    tops = [0.5 * (coarse[-2] + coarse[-1]), 0.5 * (coarse[-3] + coarse[-2])]
    xmin = coarse[0]  # the smallest node is shared by every grid of the family: a legal request (x = x_min) on each of them
    assert all(g[0] == xmin for g, _ in grids)
    xmin_pts = [xmin, xmin * (1 + 1e-9), xmin * (1 + 1e-6)]
    allx = xs + node_pts + tops + xmin_pts
    i_xmin = len(allx) - 3
    name = cards.obsname(st["kind"], st["heavyness"])
    Q2 = 30.0
    outs = []
    specs = [(g, lg, st["degree"]) for g, lg in grids] + [(grids[2][0], grids[2][1], st["degree"] + 1)]
    for g, lg, deg in specs:
        c = {"process": st["process"], "scheme": st["scheme"], "pto": st["pto"], "theory": {"RenScaleVar": False, "FactScaleVar": False}, "obscard": {"interpolation_xgrid": g, "interpolation_polynomial_degree": deg, "interpolation_is_log": lg}}
        out, s = rel.try_run(c, {name: [cards.kin(x, Q2) for x in allx]})
        if s != "ok":
            return {"violations": [_v(st, "run-failed", f"{name} on grid {len(g)} pts deg {deg}: {s}")] if not s.startswith("rejected") else [], "nontrivial": False, "outcome": s, "transitions": 1}
        outs.append((out, g))
    viol = []
    info = {}
    nontrivial = False
    for abc in PDFS:
        pdf = _P(abc)
        for o in range(st["pto"] + 1):
            P = [[_predict(out, name, g, i, pdf, o) for i in range(len(allx))] for out, g in outs]
            fine = np.array(P[2])
            sabs = np.array([_predict(outs[2][0], name, outs[2][1], i, pdf, o, part=2) for i in range(len(allx))])
            scale = np.max(sabs)
            if scale == 0:
                continue
            den = sabs + 0.01 * scale
            idx_bulk = list(range(len(xs)))  # bulk lattice (a coarse-grid node is accidentally exact on the coarse grid at LO: used for continuity only)
            idx_all = idx_bulk + list(range(len(xs) + 4, len(xs) + 4 + len(tops)))  # + top-area mid-points (convergence only: a coarse grid is not 'adequate' in its own last area)
            E = [float(np.max(np.abs(np.array(P[k])[idx_bulk] - fine[idx_bulk]) / den[idx_bulk])) for k in (0, 1)]
            Eall = [float(np.max(np.abs(np.array(P[k])[idx_all] - fine[idx_all]) / den[idx_all])) for k in (0, 1)]
            Edeg = float(np.max(np.abs(np.array(P[3])[idx_bulk] - fine[idx_bulk]) / den[idx_bulk]))
            tag = f"o{o}"
            info[f"Ecoarse_{tag}"] = max(info.get(f"Ecoarse_{tag}", 0.0), E[0])
            info[f"Emedium_{tag}"] = max(info.get(f"Emedium_{tag}", 0.0), E[1])
            info[f"Edegree_{tag}"] = max(info.get(f"Edegree_{tag}", 0.0), Edeg)
            info[f"Ecoarse_all_{tag}"] = max(info.get(f"Ecoarse_all_{tag}", 0.0), Eall[0])
            info[f"Emedium_all_{tag}"] = max(info.get(f"Emedium_all_{tag}", 0.0), Eall[1])
            if Eall[0] > LIM["coarse_top"]:
                viol.append(_v(st, "coarse-top-too-large", f"{name} {st['process']} order {o} family {st['family']} degree {st['degree']} pdf {abc}: coarse grid differs from the fine grid by {Eall[0]:.3e} inside its last areas (> {LIM['coarse_top']})"))
            if E[0] > 1e-7:
                nontrivial = True
                # shrink factor where it is actually demanded (medium error above the accuracy floor)
                if E[1] > LIM["floor"]:
                    info[f"ratio_{tag}"] = max(info.get(f"ratio_{tag}", 0.0), E[1] / E[0])
                if Eall[1] > LIM["floor"]:
                    info[f"ratio_all_{tag}"] = max(info.get(f"ratio_all_{tag}", 0.0), Eall[1] / Eall[0])
            desc = f"{name} {st['process']} {st['scheme']} order {o} family {st['family']} degree {st['degree']} pdf {abc}"
            if E[1] > max(LIM["ratio"] * E[0], LIM["floor"]):
                viol.append(_v(st, "no-convergence", f"{desc}: sup-norm error does not shrink under refinement: coarse {E[0]:.3e} -> medium {E[1]:.3e} (vs the fine grid)"))
            if Eall[1] > max(LIM["ratio"] * Eall[0], LIM["floor"]):
                viol.append(_v(st, "no-convergence-top", f"{desc}: sup-norm error incl. the last two coarse areas does not shrink under refinement: coarse {Eall[0]:.3e} -> medium {Eall[1]:.3e}"))
            if E[1] > LIM["medium"]:
                viol.append(_v(st, "medium-too-large", f"{desc}: medium grid differs from the fine grid by {E[1]:.3e} (> {LIM['medium']})"))
            if E[0] > LIM["coarse"]:
                viol.append(_v(st, "coarse-too-large", f"{desc}: coarse grid differs from the fine grid by {E[0]:.3e} (> {LIM['coarse']})"))
            if Edeg > LIM["degree"]:
                viol.append(_v(st, "degree", f"{desc}: degree {st['degree']} vs {st['degree']+1} on the fine grid differ by {Edeg:.3e}"))
            # node continuity on every grid where `node` is a node (coarse grid by construction)
            for k, lab in ((0, "coarse"),):
                pn = P[k][len(xs)]
                sc = sabs[len(xs)] + 0.01 * scale
                qerr = [_predict(outs[k][0], name, outs[k][1], len(xs) + j, pdf, o, part=1) for j in range(4)]
                for j, lim, nm in ((1, LIM["node9"], "node(1-1e-9)"), (2, LIM["node9"], "node(1+1e-9)"), (3, LIM["node6"], "node(1+1e-6)")):
                    dd = max(0.0, abs(P[k][len(xs) + j] - pn) - 10.0 * (qerr[0] + qerr[j])) / sc
                    info[f"cont_{nm}"] = max(info.get(f"cont_{nm}", 0.0), dd)
                    if dd > lim:
                        viol.append(_v(st, "node-continuity", f"{desc}: value at the {lab}-grid node x={node} is {pn:.10g} but at {nm} it is {P[k][len(xs)+j]:.10g} (rel {dd:.2e})"))
            # continuity at the smallest node, on every grid (it is a node of all of them)
            for k, lab in ((0, "coarse"), (1, "medium"), (2, "fine"), (3, "fine/degree+1")):
                pn = P[k][i_xmin]
                sc = sabs[i_xmin] + 0.01 * scale
                qerr = [_predict(outs[k][0], name, outs[k][1], i_xmin + j, pdf, o, part=1) for j in range(3)]
                for j, lim, nm in ((1, LIM["node9"], "xmin(1+1e-9)"), (2, LIM["node6"], "xmin(1+1e-6)")):
                    dd = max(0.0, abs(P[k][i_xmin + j] - pn) - 10.0 * (qerr[0] + qerr[j])) / sc
                    info[f"cont_{nm}"] = max(info.get(f"cont_{nm}", 0.0), dd)
                    if dd > lim:
                        viol.append(_v(st, "xmin-continuity", f"{desc}: value at the smallest node x={xmin} of the {lab} grid is {pn:.10g} but at {nm} it is {P[k][i_xmin+j]:.10g} (rel {dd:.2e})"))
            info[f"Exmin_{tag}"] = max(info.get(f"Exmin_{tag}", 0.0), float(abs(P[1][i_xmin] - fine[i_xmin]) / den[i_xmin]))
    seen, uv = set(), []
    for v_ in viol:
        kk = digest([v_["fpkey"], v_["msg"][:40]])
        if v_["fpkey"]["cls"] not in seen:
            seen.add(v_["fpkey"]["cls"])
            uv.append(v_)
    return {"violations": uv[:3], "nontrivial": nontrivial, "outcome": digest([round(v, 10) for v in info.values()]), "transitions": 4, "sub": len(PDFS) * (st["pto"] + 1), "info": info}


LEVEL_TEXT = (
    "Bounded-exhaustive enumeration of (grid-family ladder x degree x kind x process x scheme x PTO) cells: per cell the real runs on coarse, medium and fine grids (plus the neighbouring degree on the fine grid) at a common "
    "x lattice that contains bulk points, a coarse-grid node with its 1e-9 and 1e-6 neighbours, and the mid-points of the last two coarse areas; for three smooth PDF families and every perturbative order the sup-norm "
    "errors must shrink under refinement (and stay below absolute bounds), neighbouring degrees must agree, and the value at a node must be continuous."
    " Continuity is also demanded at the smallest node (a legal request) on every grid of a family."
)
# cross-family agreement (fine log vs fine linear vs fine lambert grid) is part of the lattice: see _states_cross
LEVEL_NOTE = "This is an accuracy bound with measured margins, not an identity; grids, PDFs and x outside the stated families are not covered. Trusted: eko's grid generators (only to produce the ladders)."
TECHNIQUE = "bounded-exhaustive enumeration of grid-refinement ladders with a convergence (sup-norm) oracle between runs"
