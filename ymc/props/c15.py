"""C15 — serialised output round-trips losslessly.

HistoryExplorer: for each output of a small alphabet of real runner outputs, every word over
{yaml, tar(, yamlfile)} up to a length is applied; after every transition the object is compared
with the original output (values bit-exact) and no transition may raise.
"""
import io
import itertools
import os
import shutil
import tempfile

import numpy as np

from .. import cards, pdfs, yrun
from ..engine import digest

ID = "C15"

OUTPUTS = {
    "sf_lo": dict(cell={"scheme": "ZM-VFNS", "process": "EM", "pto": 0}, obs={"F2_total": [("x", 0.3, 5.0)], "FL_light": [("x", 0.05, 5.0), ("x", 0.3, 90.0)]}),
    "sf_nnlo": dict(cell={"scheme": "FFNS3", "process": "NC", "pto": 2}, obs={"F2_charm": [("x", 0.05, 30.0)], "F3_total": [("x", 0.3, 30.0)]}),
    "xs_only": dict(cell={"scheme": "ZM-VFNS", "process": "NC", "pto": 1}, obs={"XSHERANC_total": [("y", 0.3, 30.0, 0.4), ("y", 0.01, 30.0, 0.9)]}),
    "mixed": dict(cell={"scheme": "ZM-VFNS", "process": "CC", "pto": 1, "projectile": "antineutrino", "target": {"Z": 23.403, "A": 49.618}}, obs={"XSCHORUSCC_total": [("y", 0.3, 30.0, 0.4)], "F2_total": [("x", 0.3, 30.0)], "F3_charm": [("x", 0.1, 30.0)]}),
    "empty_kin": dict(cell={"scheme": "ZM-VFNS", "process": "EM", "pto": 1}, obs={"F2_total": [("x", 0.3, 5.0)], "FL_total": []}),
    "none_obs": dict(cell={"scheme": "ZM-VFNS", "process": "EM", "pto": 0}, obs={"F2_total": [("x", 0.3, 5.0)], "FL_total": [("x", 0.3, 5.0)]}, post="none"),
    "numpy_card": dict(cell={"scheme": "ZM-VFNS", "process": "EM", "pto": 0, "obscard": {"interpolation_xgrid": "__numpy__"}, "theory": {"mc": "__npfloat__"}}, obs={"F2_total": [("x", 0.3, 5.0)], "g1_total": [("x", 0.3, 5.0)]}),
    "tmc_pol": dict(cell={"scheme": "ZM-VFNS", "process": "NC", "pto": 1, "tmc": 1, "obscard": {"PolarizationDIS": -0.7, "NCPositivityCharge": "up"}, "grid": "L7"}, obs={"F2_total": [("x", 0.3, 5.0)], "g1_light": [("x", 0.5, 5.0)]}),
    "only_empty": dict(cell={"scheme": "ZM-VFNS", "process": "EM", "pto": 0}, obs={"F2_total": []}),
    "xs_all": dict(cell={"scheme": "ZM-VFNS", "process": "NC", "pto": 0, "projectile": "positron"}, obs={k + "_total": [("y", 0.3, 30.0, 0.4)] for k in ["XSHERANC", "XSHERANCAVG", "XSHERACC", "XSCHORUSCC", "XSNUTEVCC", "XSNUTEVNU", "FW", "F1", "g5", "XSFPFCC"]}),
    # kinematic lists that are long, not sorted in Q2 (cyclic disorder, ties in Q2 with different x, a repeated point): the position of every point must survive
    "unsorted": dict(cell={"scheme": "ZM-VFNS", "process": "NC", "pto": 1}, obs={
        "F2_total": [("x", 0.1, 30.0), ("x", 0.3, 10.0), ("x", 0.05, 20.0)],
        "FL_light": [("x", 0.3, 4.0), ("x", 0.05, 1.5), ("x", 0.3, 3.0), ("x", 0.01, 2.0), ("x", 0.3, 4.0)],
        "XSHERANC_total": [("y", 0.3, 50.0, 0.4), ("y", 0.01, 8.0, 0.9), ("y", 0.1, 50.0, 0.1), ("y", 0.2, 20.0, 0.5), ("y", 0.02, 8.0, 0.3), ("y", 0.5, 90.0, 0.7), ("y", 0.05, 12.0, 0.2)],
        "F3_total": [("x", 0.6, 90.0), ("x", 0.3, 30.0), ("x", 0.1, 10.0), ("x", 0.01, 5.0)],
    }),
    # sparsity that differs between the points of one observable (first point all zero: below the flavour threshold / x = 1) combined with switched-off scale variations
    "sparse_ren_off": dict(cell={"scheme": "ZM-VFNS", "process": "NC", "pto": 2, "theory": {"RenScaleVar": False}}, obs={
        "F2_charm": [("x", 0.1, 2.0), ("x", 0.1, 30.0), ("x", 0.3, 90.0)], "FL_total": [("x", 1.0, 30.0), ("x", 0.1, 30.0)], "F3_bottom": [("x", 0.3, 10.0), ("x", 0.3, 90.0)]}),
    "sparse_fact_off": dict(cell={"scheme": "ZM-VFNS", "process": "CC", "pto": 1, "theory": {"FactScaleVar": False}}, obs={
        "F2_charm": [("x", 0.1, 2.0), ("x", 0.1, 30.0)], "XSCHORUSCC_charm": [("y", 0.1, 2.0, 0.5), ("y", 0.1, 30.0, 0.5)], "F2_total": [("x", 1.0, 30.0), ("x", 0.3, 2.0)]}),
    "sv_off": dict(cell={"scheme": "FFNS4", "process": "EM", "pto": 2, "theory": {"RenScaleVar": False, "FactScaleVar": False}}, obs={"FL_bottom": [("x", 0.01, 300.0)]}),
    # floats whose shortest repr is exponent notation WITHOUT a dot (1e-05, 2e-05, 1e+16): in kinematics, in the grid and in the cards; a text format that
    # writes them with one library and reads them with another may turn them into strings (YAML 1.1 floats need the dot)
    "extreme_floats": dict(cell={"scheme": "ZM-VFNS", "process": "NC", "pto": 0, "theory": {"MP": 1e-05, "GF": 1e-05}, "obscard": {"interpolation_xgrid": [1e-05, 1e-04, 1e-03, 1e-02, 0.1, 0.5, 1.0], "interpolation_polynomial_degree": 2, "interpolation_is_log": True, "PropagatorCorrection": 2e-05}}, obs={
        "F2_total": [("x", 1e-05, 5.0), ("x", 2e-05, 1e16), ("x", 5e-05, 1e-05), ("x", 0.3, 5e15)], "XSHERANC_total": [("y", 2e-05, 5.0, 1e-05), ("y", 0.3, 1e16, 3e-05)], "FL_light": [("x", 1e-05, 1e-05)]}),
}
OPS = ["yaml", "tar", "yamlfile"]

RULE = (
    "states = (output, word) with output from an alphabet of real runner outputs (SF only, XS only, mixed, empty kinematics list, None observable, numpy-typed card, "
    "PTO 0/1/2, scale variations off, TMC, linear grid) and word over {yaml=load_yaml(dump_yaml), tar=load_tar(dump_tar)[, yamlfile=file variants]} up to the length bound; "
    "after every letter the object is compared with the original (names, kinematics, order keys, values/errors bit-exact, grid, pids, projectile, cards by value, predictions); "
    "non-trivial = word length >= 2 or the output has a special shape; distinct_outcomes = distinct typed skeletons reached"
)
ASSUMPTIONS = [
    "outputs are the 15 listed ones (one with dot-less exponent floats such as 1e-05 / 1e+16 in kinematics, grid and cards) (two of them with a first point whose blocks are all zero while later points are not, with one scale variation switched off) (incl. one with 3-7 points per observable in cyclic Q2 disorder with ties and a repeated point) (incl. one with all ten cross-section kinds) on grids G6/L7; words up to length 3 (quick: letters yaml,tar) / 4 (thorough: yaml,tar,yamlfile up to 3, yaml,tar at 4)",
    "cards are compared by value after normalising numpy arrays/scalars and tuples to lists/builtins (the serialisation is not required to preserve container types of the card)",
    "a None observable is produced by assigning None after the run (the runner itself never produces one)",
]
BUDGET = {"quick": 900, "thorough": 3600}


def _states_base(tier, seed):
    out = []
    for name in OUTPUTS:
        if tier == "quick":
            words = [w for n in (1, 2, 3) for w in itertools.product(OPS[:2], repeat=n)]
        else:
            words = [w for n in (1, 2, 3) for w in itertools.product(OPS, repeat=n)] + list(itertools.product(OPS[:2], repeat=4))
        for w in words:
            out.append({"output": name, "word": list(w)})
    return out


_OUT = {}


def _make(name):
    if name in _OUT:
        return _OUT[name]
    spec = OUTPUTS[name]
    cell = dict(spec["cell"])
    oc = dict(cell.get("obscard", {}))
    if oc.get("interpolation_xgrid") == "__numpy__":
        oc["interpolation_xgrid"] = np.array(cards.GRIDS["G6"][0])
        cell["obscard"] = oc
    th = dict(cell.get("theory", {}))
    for k, v in list(th.items()):
        if v == "__npfloat__":
            th[k] = np.float64(1.51)
    cell["theory"] = th
    obs = {}
    for o, pts in spec["obs"].items():
        obs[o] = [cards.kin(p[1], p[2], p[3] if p[0] == "y" else None) for p in pts]
    t = cards.theory(cell)
    oc = cards.observables(cell, obs)
    if isinstance(cell.get("obscard", {}).get("interpolation_xgrid"), np.ndarray):
        oc["interpolation_xgrid"] = cell["obscard"]["interpolation_xgrid"]
    import yadism

    yrun.log_cards(t, oc)
    out = yadism.run_yadism(t, oc)
    if spec.get("post") == "none":
        out["FL_total"] = None
    _OUT[name] = out
    return out


def _norm(o):
    if isinstance(o, dict):
        return {str(k): _norm(v) for k, v in o.items()}
    if isinstance(o, (list, tuple)):
        return [_norm(v) for v in o]
    if isinstance(o, np.ndarray):
        return _norm(o.tolist())
    if isinstance(o, np.generic):
        return o.item()
    return o


def _skeleton(o, depth=0):
    if isinstance(o, dict):
        return {str(k): _skeleton(v, depth + 1) for k, v in o.items()}
    if isinstance(o, (list, tuple)):
        return [type(o).__name__, len(o), _skeleton(o[0], depth + 1) if len(o) else None]
    if hasattr(o, "orders"):
        return [type(o).__name__, sorted(str(k) for k in o.orders), type(o.x).__name__, type(o.Q2).__name__, type(o.nf).__name__]
    if isinstance(o, np.ndarray):
        return ["ndarray", str(o.dtype), list(o.shape)]
    return type(o).__name__


def _apply(op, out, tmpdir):
    from yadism.output import Output

    if op == "yaml":
        return Output.load_yaml(io.StringIO(out.dump_yaml()))
    if op == "yamlfile":
        p = os.path.join(tmpdir, "o.yaml")
        out.dump_yaml_to_file(p)
        return Output.load_yaml_from_file(p)
    if op == "tar":
        p = os.path.join(tmpdir, "o.tar")
        out.dump_tar(p)
        return Output.load_tar(p)
    raise ValueError(op)


def _is_obs(k):
    from yadism.observable_name import ObservableName

    return ObservableName.is_valid(k)


def _compare(orig, new):
    """list of difference descriptions (empty = equal)."""
    diffs = []
    ko = sorted(k for k in orig if _is_obs(k))
    kn = sorted(k for k in new if _is_obs(k))
    if ko != kn:
        return [f"observable names differ: {ko} vs {kn}"]
    for k in ko:
        a, b = orig[k], new[k]
        if a is None or b is None:
            if not (a is None and b is None):
                diffs.append(f"{k}: None-ness differs ({type(a).__name__} vs {type(b).__name__})")
            continue
        if len(a) != len(b):
            diffs.append(f"{k}: {len(a)} vs {len(b)} points")
            continue
        if len(a) == 0 and not isinstance(b, list):
            diffs.append(f"{k}: empty list became {type(b).__name__}")
        for i, (ra, rb) in enumerate(zip(a, b)):
            for f in ("x", "Q2", "y", "nf"):
                va, vb = getattr(ra, f, None), getattr(rb, f, None)
                if (va is None) != (vb is None) or (va is not None and not (float(va) == float(vb))):
                    diffs.append(f"{k}[{i}].{f}: {va!r} vs {vb!r}")
            if type(ra).__name__ != type(rb).__name__:
                diffs.append(f"{k}[{i}] class {type(ra).__name__} vs {type(rb).__name__}")
            if [tuple(o) for o in ra.orders] != [tuple(o) for o in rb.orders]:
                diffs.append(f"{k}[{i}] order keys {list(ra.orders)} vs {list(rb.orders)}")
                continue
            for o in ra.orders:
                for part, nm in ((0, "values"), (1, "errors")):
                    x, y = np.asarray(ra.orders[o][part]), np.asarray(rb.orders[tuple(o)][part])
                    if x.shape != y.shape or not np.array_equal(x, y, equal_nan=True):
                        diffs.append(f"{k}[{i}] order {o} {nm} differ")
    for f in ("xgrid", "polynomial_degree", "is_log", "pids", "projectilePID"):
        if f not in new:
            diffs.append(f"metadata field {f} missing")
        elif _norm(orig[f]) != _norm(new[f]):
            diffs.append(f"metadata field {f}: {_norm(orig[f])!r} vs {_norm(new[f])!r}")
    extra = sorted((set(new) ^ set(orig)))
    if extra:
        diffs.append(f"field sets differ: {extra}")
    if _norm(orig.theory) != _norm(new.theory):
        diffs.append("theory card differs")
    if _norm(orig.observables) != _norm(new.observables):
        diffs.append("observables card differs")
    # predictions
    if not diffs:
        pdf = pdfs.ToyPDF()
        for xiR, xiF in ((1.0, 1.0), (2.0, 0.5)):
            pa = orig.apply_pdf_alphas_alphaqed_xir_xif(pdf, lambda mu: 0.2, lambda mu: 0.007, xiR, xiF)
            pb = new.apply_pdf_alphas_alphaqed_xir_xif(pdf, lambda mu: 0.2, lambda mu: 0.007, xiR, xiF)
            if _norm(dict(pa)) != _norm(dict(pb)):
                diffs.append(f"predictions differ at xiR={xiR}, xiF={xiF}")
    return diffs


def states(tier, seed):
    """quick = the full base lattice; thorough = base lattice + the deep extension."""
    base = _states_base("thorough", seed)
    if tier == "quick":
        return base
    seen = {digest(s) for s in base}
    return base + [s for s in _states_deep(seed) if digest(s) not in seen]


def _states_deep(seed):
    out = []
    for name in OUTPUTS:
        for w in itertools.product(OPS[:2], repeat=5):
            out.append({"output": name, "word": list(w)})
        for w in itertools.product(OPS, repeat=4):
            out.append({"output": name, "word": list(w)})
    return out


def execute(st):
    try:
        orig = _make(st["output"])
    except Exception as e:  # producing the output is C16's business
        info = yrun.classify_exception(e)
        return {"violations": [], "nontrivial": False, "outcome": f"blocked:{info['exc']}:{info['site']}", "transitions": 0, "info": {"n_blocked": 1}}
    cur = orig
    tmpdir = tempfile.mkdtemp(prefix="ymc15_", dir="/var/tmp")
    viol = []
    skels = []
    try:
        for i, op in enumerate(st["word"]):
            try:
                cur = _apply(op, cur, tmpdir)
            except Exception as e:
                info = yrun.classify_exception(e)
                viol.append({
                    "fp": {"output": st["output"], "op": op, "step": i, "cls": "exception", **info},
                    "fpkey": {"cls": "exception", "exc": info["exc"], "site": info["site"], "output": st["output"]},
                    "msg": f"output '{st['output']}', word {st['word']}: letter {i} ({op}) raised {info['exc']} at {info['site']} ({info['inner']}): {info['excmsg']}",
                })
                break
            d = _compare(orig, cur)
            skels.append(digest(_skeleton(dict(cur))))
            if d:
                viol.append({
                    "fp": {"output": st["output"], "op": op, "step": i, "cls": "differs", "first": d[0][:80]},
                    "fpkey": {"cls": "differs", "output": st["output"], "first": d[0][:60]},
                    "msg": f"output '{st['output']}', word {st['word']}: after letter {i} ({op}): {'; '.join(d[:4])}",
                })
                break
    finally:
        shutil.rmtree(tmpdir, ignore_errors=True)
    special = st["output"] in ("empty_kin", "none_obs", "numpy_card", "only_empty")
    return {
        "violations": viol,
        "nontrivial": len(st["word"]) >= 2 or special,
        "outcome": skels,
        "transitions": len(st["word"]) * 2,
    }


LEVEL_TEXT = (
    "Explicit-state exploration of dump/load histories: for each of 11 real runner outputs (covering SF, XS, mixed, empty and None observables, numpy-typed cards, "
    "PTO 0-2, TMC, linear grid) every word over the round-trip operations up to length 3 (quick) / 4 (thorough) is executed on the real Output methods; after every "
    "letter the loaded object must equal the original (kinematics, order keys, values and errors bit-exact, grid, pids, projectile, cards by value, predictions for a test PDF) "
    "and no letter may raise."
    " One output carries 3-7 points per observable in cyclic Q2 disorder with ties and a repeated point, so positions must survive every cycle."
)
LEVEL_NOTE = (
    "Trusted: PyYAML, numpy npz, tarfile, tempfile. Cards are compared by value modulo numpy/builtin container types. Outputs outside the 11-element alphabet and words longer than 4 are not covered."
)
TECHNIQUE = "explicit-state search over bounded dump/load operation words on live Output objects with an equality invariant after every transition"
