"""C02 — LO parton model and electroweak / CKM coupling weights.

LatticeExplorer with reference-model conformance: each state is one real LO run (all kinds x heavynesses x
x-points) for one point of the (process, projectile, scheme, Q2, EW parameter, CKM) lattice; every row of every LO
operator is compared with x * w_pid * (Kronecker delta at a node / reference basis function off-node), w from ref_ew.
"""
import itertools
import math

import numpy as np

from .. import cards, rel, yrun
from ..engine import digest
from ..ref import ref_basis, ref_ew

HISTORY_SWEEP = True
ID = "C02"
KINDS = ["F2", "FL", "F3", "g1", "gL", "g4"]
HEAVY = ["light", "total", "charm", "bottom", "top"]
PROJ = ["electron", "positron", "neutrino", "antineutrino"]
CKMS = {
    "pdg": cards.CKM_PDG,
    "identity": "1 0 0 0 1 0 0 0 1",
    "dense": "0.02 0.03 0.05 0.07 0.11 0.13 0.17 0.19 0.23",
    "list": [[0.9, 0.4, 0.1], [0.3, 0.8, 0.2], [0.05, 0.15, 0.95]],
}
G = cards.GRIDS["G6"][0]
XPTS = [("node", v) for v in G[:-1]] + [("mid", math.sqrt(0.01 * 0.1)), ("mid", 0.45)]
MZ0 = 91.1876
RTOL = 1e-12

RULE = (
    "states = points of the lattice (process, projectile, scheme, Q2 -> n_f, sin2thetaW, MZ, MW, polarisation, propagator correction, CKM); each state is one real LO run "
    "with all six kinds x {light,total,charm,bottom,top} at 5 grid nodes and 2 off-node points; every operator row is compared with x*w_pid*delta_jl (node) or "
    "x*w_pid*p_l(x) (off node), w_pid from ref_ew, |delta| <= 1e-12 * x*|w_pid| (rows whose reference weight is 0 must be exactly 0.0); non-trivial = a compared operator has a non-zero reference weight; "
    "distinct_outcomes = distinct output digests"
)
ASSUMPTIONS = [
    "PTO 0, grid G6; heavy-flavour observables are checked in the zero-mass regime (ZM-VFNS) where the parton-model formula applies; FFNS schemes only for *_light (the massive LO intrinsic term is C01/C08)",
    "NC with charged leptons: PDG formulas with lambda = -P for e-, +P for e+ (validated in the self-test against the definite-helicity amplitude (e_q e_e + g_hel gVq eta)^2 + (g_hel gAq eta)^2); "
    "NC with neutrino beams: the library's documented rule (no PDG polarised formula exists) - regression guard only",
    "eta_gammaZ = Q2/(Q2+MZ2)/(4 s2w c2w)/(1-propagator correction) (tree-level relation used by the library's documentation); MW does not enter the structure functions",
    "CKM: list-form input is |V_ij| row-wise (u,c,t) x (d,s,b)",
]
BUDGET = {"quick": 900, "thorough": 3600}


def _st(**kw):
    d = dict(process="NC", projectile="electron", scheme="ZM-VFNS", Q2=30.0, s2w=0.23126, MZ=MZ0, MW=80.398, pol=0.0, prc=0.0, ckm="pdg")
    d.update(kw)
    return d


def states(tier, seed):
    out = []
    Q2S = [0.5, 4.0, 30.0, MZ0**2, 1e6]
    S2W = [0.05, 0.23126, 0.5, 0.9]
    MZS = [MZ0, 10.0, "__inf__"]
    POLS = [-1.0, -0.3, 0.0, 0.7, 1.0]
    if tier == "thorough":
        # extended lattice: more values on every axis
        Q2S = [0.5, 2.2, 2.3, 4.0, 24.0, 24.5, 30.0, MZ0**2, 29000.0, 30000.0, 1e6]
        S2W = [0.001, 0.05, 0.23126, 0.5, 0.9, 0.999]
        POLS = [-1.0, -0.5, -0.3, 0.0, 0.25, 0.7, 1.0]
    if tier == "never":
        for pr, q2, pol, prc in itertools.product(PROJ, Q2S, POLS, [0.0, 0.1]):
            out.append(_st(process="NC", projectile=pr, Q2=q2, pol=pol, prc=prc))
        for pr, s2w, mz, pol in itertools.product(PROJ, S2W, MZS, [-0.3, 1.0]):
            out.append(_st(process="NC", projectile=pr, s2w=s2w, MZ=mz, pol=pol))
        for pr, sc, q2 in itertools.product(["electron", "positron"], ["FFNS3", "FFNS4", "FFNS5"], [4.0, 1e6]):
            out.append(_st(process="NC", projectile=pr, scheme=sc, Q2=q2, s2w=0.5, MZ=10.0, pol=0.7, prc=0.1))
        for pr, q2, pol in itertools.product(PROJ, Q2S, [0.0, 0.7]):
            out.append(_st(process="EM", projectile=pr, Q2=q2, pol=pol))
        for pr, q2, ckm, mw in itertools.product(PROJ, Q2S, list(CKMS), [80.398, 10.0]):
            out.append(_st(process="CC", projectile=pr, Q2=q2, ckm=ckm, MW=mw))
        for pr, sc, ckm in itertools.product(PROJ, ["FFNS3", "FFNS4", "FFNS5"], ["pdg", "dense"]):
            out.append(_st(process="CC", projectile=pr, scheme=sc, ckm=ckm))
    else:
        for pr, sc, q2, s2w, mz, pol, prc in itertools.product(PROJ, ["ZM-VFNS", "FFNS3", "FFNS4"], Q2S, S2W, MZS, POLS, [0.0, 0.1]):
            if sc != "ZM-VFNS" and (q2 not in (4.0, 1e6) or pr in ("neutrino", "antineutrino")):
                continue
            out.append(_st(process="NC", projectile=pr, scheme=sc, Q2=q2, s2w=s2w, MZ=mz, pol=pol, prc=prc))
        for pr, sc, q2, pol, s2w in itertools.product(PROJ, ["ZM-VFNS", "FFNS3", "FFNS4", "FFNS5"], Q2S, POLS, [0.23126, 0.9]):
            out.append(_st(process="EM", projectile=pr, scheme=sc, Q2=q2, pol=pol, s2w=s2w))
        for pr, sc, q2, ckm, mw, pol in itertools.product(PROJ, ["ZM-VFNS", "FFNS3", "FFNS4", "FFNS5"], Q2S, list(CKMS), [80.398, 10.0], [0.0, -1.0]):
            out.append(_st(process="CC", projectile=pr, scheme=sc, Q2=q2, ckm=ckm, MW=mw, pol=pol))
    # non-default heavy-quark masses and matching ratios: the number of active flavours (hence which weights exist) moves with (m k)^2
    for pr, proc, (ms, ks), q2 in itertools.product(
        ["electron", "antineutrino"], ["NC", "CC"],
        [((1.51, 4.92, 172.5), (2.0, 2.0, 2.0)), ((1.51, 4.92, 172.5), (0.5, 1.0, 0.1)), ((1.2, 4.0, 150.0), (1.0, 1.5, 1.0)), ((2.0, 5.5, 180.0), (0.7, 0.7, 0.7))],
        [1.0, 3.0, 5.0, 20.0, 30.0, 50.0, 100.0, 400.0, 3e4, 1.2e5],
    ):
        out.append(_st(process=proc, projectile=pr, Q2=q2, masses=list(ms), kthr=list(ks), pol=0.4 if proc == "NC" else 0.0, ckm="dense" if proc == "CC" else "pdg"))
    # the leading-order operator of a higher-order run is the same parton-model expression: PTO 1..3 (higher orders add kernels, some of which share weight tables with the LO ones)
    for pto, (proc, pr), sc, q2 in itertools.product([1, 2, 3], [("EM", "electron"), ("NC", "positron"), ("CC", "neutrino"), ("CC", "electron")], ["ZM-VFNS", "FFNS4"], [4.0, 30.0, 1e6]):
        if sc == "FFNS4" and (q2 != 30.0 or pto == 3):
            continue
        out.append(_st(process=proc, projectile=pr, scheme=sc, Q2=q2, pol=0.4 if proc == "NC" else 0.0, pto=pto))
    return out


def _nf(st):
    fns, nfff = cards.SCHEMES[st["scheme"]]
    if fns == "ZM-VFNS":
        ms = st.get("masses", (1.51, 4.92, 172.5))
        ks = st.get("kthr", (1.0, 1.0, 1.0))
        return 3 + sum(1 for m, k in zip(ms, ks) if (m * k) ** 2 <= st["Q2"])
    return nfff


def execute(st):
    yrun.reset_memos()
    mz = math.inf if st["MZ"] == "__inf__" else st["MZ"]
    cell = {
        "scheme": st["scheme"],
        "process": st["process"],
        "projectile": st["projectile"],
        "pto": st.get("pto", 0),
        "theory": dict(
            {"SIN2TW": st["s2w"], "MZ": mz, "MW": st["MW"], "CKM": CKMS[st["ckm"]], "RenScaleVar": st.get("pto", 0) == 0, "FactScaleVar": st.get("pto", 0) == 0},
            **({"mc": st["masses"][0], "mb": st["masses"][1], "mt": st["masses"][2], "kcThr": st["kthr"][0], "kbThr": st["kthr"][1], "ktThr": st["kthr"][2]} if "masses" in st else {}),
        ),
        "obscard": {"PolarizationDIS": st["pol"], "PropagatorCorrection": st["prc"]},
    }
    zm = st["scheme"] == "ZM-VFNS"
    kinds = ["F2", "FL", "F3"] if st["process"] == "CC" or st.get("pto", 0) == 3 else KINDS  # polarised O(a_s^3) does not exist (open known finding of C16)
    heavies = HEAVY if zm else ["light"]
    obs = {cards.obsname(k, h): [cards.kin(x, st["Q2"]) for _, x in XPTS] for k in kinds for h in heavies}
    out, status = rel.try_run(cell, obs)
    if status != "ok":
        fp = dict(st, cls="run-failed", status=status)
        return {"violations": [{"fp": fp, "fpkey": {"cls": "run-failed", "status": status}, "msg": f"LO run failed ({status}) for {st}"}], "nontrivial": True, "outcome": status, "transitions": 1}
    nf = _nf(st)
    basis = ref_basis.RefBasis(*cards.grid("G6"))
    viol = []
    nontrivial = 0
    maxrel = 0.0
    ncmp = 0
    for k in kinds:
        for h in heavies:
            name = cards.obsname(k, h)
            w = ref_ew.lo_weights(k, h, st["process"], st["projectile"], nf, pol=st["pol"], Q2=st["Q2"], MZ=mz, s2w=st["s2w"], prc=st["prc"], ckm=CKMS[st["ckm"]])
            for i, (lab, x) in enumerate(XPTS):
                T = yrun.tensors(out[name][i])
                if st.get("pto", 0) == 0 and set(T) != {(0, 0, 0, 0)}:
                    viol.append(_v(st, name, "keys", f"{name}: order keys {sorted(T)} at PTO 0"))
                    continue
                val = T[(0, 0, 0, 0)][0]
                pj = np.array([basis.p(j, x) for j in range(basis.n)])
                if lab == "node":
                    pj = np.array([1.0 if abs(basis.x[j] - x) < 1e-15 else 0.0 for j in range(basis.n)])
                exp = np.zeros_like(val)
                for pid, ww in w.items():
                    exp[yrun.PIDX[pid]] = x * ww * pj
                ncmp += 1
                if w:
                    nontrivial += 1
                rowscale = np.zeros(14)
                for pid, ww in w.items():
                    rowscale[yrun.PIDX[pid]] = abs(x * ww)
                zero = np.repeat((rowscale == 0.0)[:, None], val.shape[1], axis=1)
                if np.any(val[zero] != 0.0):
                    idx = np.argwhere(zero & (val != 0.0))[0]
                    viol.append(_v(st, name, "nonzero-where-zero", f"{name} {st['process']}/{st['projectile']} nf={nf} x={x} ({lab}): operator[pid={yrun.PIDS[idx[0]]}, j={idx[1]}] = {val[tuple(idx)]:.6g} where the parton-model weight is 0; state {st}"))
                    continue
                d = np.abs(val - exp)
                sc = np.abs(exp) + rowscale[:, None]  # the basis functions are Kronecker deltas at nodes only up to rounding
                if np.any(d > RTOL * sc):
                    idx = np.unravel_index(np.argmax(d - RTOL * sc), d.shape)
                    pid = yrun.PIDS[idx[0]]
                    viol.append(_v(st, name, "weight", f"{name} {st['process']}/{st['projectile']} nf={nf} x={x} ({lab}): operator[pid={pid}, j={idx[1]}] = {val[idx]:.12g}, parton model x*w*p = {exp[idx]:.12g} (w={w.get(pid, 0.0):.12g}); state {st}"))
                    continue
                with np.errstate(divide="ignore", invalid="ignore"):
                    r = np.where(sc > 0, d / sc, 0.0)
                maxrel = max(maxrel, float(r.max()))
    # distinct fingerprints only
    seen = set()
    uv = []
    for v in viol:
        key = digest(v["fpkey"])
        if key not in seen:
            seen.add(key)
            uv.append(v)
    return {"violations": uv[:6], "nontrivial": nontrivial, "outcome": yrun.out_digest(out), "transitions": 1, "sub": ncmp, "info": {"maxrel": maxrel}}


def _v(st, name, what, msg):
    k, h = name.split("_")
    fp = dict(st, cls=what, kind=k, heavyness=h)
    return {"fp": fp, "fpkey": {"cls": what, "kind": k, "heavyness": h, "process": st["process"], "projectile": st["projectile"], "scheme": st["scheme"]}, "msg": msg}


LEVEL_TEXT = (
    "Bounded-exhaustive model checking with reference-model conformance: for every point of the lattice (process x projectile x scheme x Q2 (n_f=3..6) x sin2thetaW x MZ x MW x polarisation x "
    "propagator correction x CKM; the full product in both tiers, thorough with more values on every axis) one real LO run returns all kinds and heavynesses at 5 nodes and 2 off-node points, and every "
    "operator row is compared with the parton-model prediction x*w*delta (x*w*p_l(x) off node) from an independent implementation of the PDG weights, 1e-12 relative to x*|w| of the row and exactly zero in rows whose weight vanishes."
)
LEVEL_NOTE = (
    "Trusted: ref_ew (my transcription of the PDG parton-model formulas, self-tested against the definite-helicity amplitude) and ref_basis. Heavy-flavour observables are covered in the zero-mass regime only; "
    "neutrino NC weights follow the library's documented polarisation rule."
)
TECHNIQUE = "bounded-exhaustive enumeration of an electroweak-parameter x configuration lattice with conformance of every LO operator row to an executable reference model"
