"""C05 — scale-variation terms satisfy the renormalisation-group equations.

Per state one real run with both switches on (plus the three other switch combinations):
 oracle 1a (mu_R, exact on output keys): T(2,0,1,j) = -beta0 T(1,0,0,j); T(3,0,1,j) = -beta1 T(1,0,0,j) - 2 beta0 T(2,0,0,j); T(3,0,2,j) = beta0^2 T(1,0,0,j)
 oracle 1b (mu_F, reference DGLAP operators in flavour (x) x space from ref_rge/ref_conv/ref_basis):
            T(1,0,0,1) = c0 P0; T(2,0,0,1) = c1 P0 + c0 P1; T(2,0,0,2) = (c0 P0 P0 + beta0 c0 P0)/2; heavy (intrinsic) rows carry no L_F terms
 oracle 2  (switches): keys with a switched-off log power are exactly 0.0, all other keys bit-identical to the all-on run
plus 'moments' states tying the convolved splitting labels to their factors and the library's LO kernels to hand-written ones.
"""
import itertools
import math

import numpy as np

from .. import cards, rel, yrun
from ..engine import digest
from ..ref import ref_basis, ref_conv, ref_rge

HISTORY_SWEEP = True
ID = "C05"
XS = [0.01, 0.0316227766, 0.3 * (1 + 1e-9), 0.8]
TOL_R = 1e-12
TOL_F = 1e-6
_MATS = {}

RULE = (
    "states = (kind, heavyness, process, scheme, PTO, Q2 -> n_f) cells, each with four real runs (RenScaleVar x FactScaleVar) at 4 x points, plus per-n_f 'moments' states and 'multi' states (one runner with points in several n_f regions: the splitting-operator cache is shared); "
    "mu_R identities are checked on all order keys at 1e-12, mu_F identities against reference DGLAP operators at 1e-6 of the sum of absolute terms (measured 1.9e-8), switch semantics bit-for-bit; "
    "non-trivial = the all-on run has a non-zero scale-variation key and (for mu_F) the prediction is non-zero"
)
ASSUMPTIONS = [
    "grid G6 (plus L7, G9, D5 for a sub-lattice); Q2 in {4,30,1e5} (n_f = 4,5,6 in ZM-VFNS; fixed in FFNS) plus, in ZM-VFNS, Q2 exactly at, one ulp below and one ulp above each of the three matching scales for the default card and for kcThr=0.5,kbThr=2,ktThr=0.5; mu_F identities for PTO 1..2 only (the library has no O(a_s^3) factorisation kernels: keys (3,0,0,j>0) are not claimed), mu_R identities up to PTO 3",
    "x-space DGLAP operators: reference convolution (ref_conv on ref_basis) of hand-written LO splitting functions and of the library's NLO / convolved splitting kernels "
    "(their distribution consistency is C03, the convolved labels are tied to their factors by Mellin moments in the 'moments' states, NLO moments are benchmarked against eko by the test-suite)",
    "flavour structure written out by hand (valence/sea decomposition); heavy-quark rows |pid|>n_f (intrinsic channel) must carry no factorisation logs",
    "beta0 = 11-2nf/3, beta1 = 102-38nf/3; n_f from the threshold count (C06)",
    "canonical projectile and proton target for the main lattice; a PTO 2 sub-lattice with positron / antineutrino / charged-lepton CC / neutrino NC, iron and neutron targets, polarised beam with propagator correction",
]
BUDGET = {"quick": 1500, "thorough": 7200}


def _states_base(tier, seed):
    out = []
    if tier == "quick":
        cells = itertools.product(["F2", "FL", "F3", "g1"], ["light", "total"], ["EM", "NC", "CC"], ["ZM-VFNS", "FFNS3"], [1, 2], [30.0])
    else:
        cells = itertools.product(["F2", "FL", "F3", "g1", "gL", "g4"], ["light", "total", "charm"], ["EM", "NC", "CC"], ["ZM-VFNS", "FFNS3", "FFNS4", "FFN03"], [1, 2], [4.0, 30.0, 1e5])
    for k, h, p, sc, pto, q2 in cells:
        if tier == "quick" and p == "EM" and k in ("F3",):
            continue
        out.append({"t": "cell", "kind": k, "heavyness": h, "process": p, "scheme": sc, "pto": pto, "Q2": q2})
    # other n_f regimes and PTO 3 (mu_R identities incl. mixed keys)
    extra = [
        ("F2", "total", "NC", "ZM-VFNS", 2, 4.0), ("F2", "total", "NC", "ZM-VFNS", 2, 1e5), ("F3", "total", "CC", "ZM-VFNS", 2, 4.0), ("F2", "charm", "NC", "FFNS3", 2, 30.0),
        ("F2", "light", "NC", "ZM-VFNS", 3, 30.0), ("FL", "light", "EM", "ZM-VFNS", 3, 10.0), ("F3", "light", "CC", "ZM-VFNS", 3, 30.0), ("F2", "total", "NC", "FFNS4", 2, 300.0),
        ("F2", "total", "CC", "FFNS3", 2, 30.0), ("F2", "bottom", "NC", "FFNS3", 2, 300.0), ("F2", "total", "NC", "FFN03", 2, 100.0),
    ]
    if tier == "thorough":
        extra += [(k, h, p, "ZM-VFNS", 3, q2) for k, h, p, q2 in itertools.product(["F2", "FL", "F3"], ["light", "total"], ["NC", "CC"], [4.0, 30.0, 1e5])]
        extra += [("F2", "total", "NC", "FFNS3", 3, 30.0), ("F2", "total", "NC", "FONLL-FFNS4", 2, 100.0), ("FL", "total", "NC", "FONLL-FFN03", 2, 30.0)]
    for k, h, p, sc, pto, q2 in extra:
        st = {"t": "cell", "kind": k, "heavyness": h, "process": p, "scheme": sc, "pto": pto, "Q2": q2}
        if st not in out:
            out.append(st)
    # other interpolation set-ups (linear grid, degree 3 and 5): the splitting operators are rebuilt by the reference on the same grid
    for g, k, p in itertools.product(["L7", "G9", "D5"], ["F2", "FL", "F3"], ["NC", "CC"]):
        out.append({"t": "cell", "kind": k, "heavyness": "total", "process": p, "scheme": "ZM-VFNS", "pto": 2, "Q2": 30.0, "grid": g})
    # Q2 exactly at / one ulp below each matching scale (default card and a card with kThr != 1): the scale-variation terms must use the SAME n_f
    # as the central coefficient functions (threshold convention: (m*k)^2 <= Q2 counts); ratios are powers of two so that (m*k)^2 is unambiguous in floats
    kcard = {"kcThr": 0.5, "kbThr": 2.0, "ktThr": 0.5}
    thr_cells = [("F2", "total", "NC", 2), ("FL", "total", "EM", 1)] if tier == "quick" else [("F2", "total", "NC", 2), ("FL", "total", "EM", 1), ("F3", "total", "CC", 2), ("F2", "light", "NC", 3), ("g1", "total", "NC", 2)]
    for (k, h, p, pto), th in itertools.product(thr_cells, [{}, kcard]):
        for q in "cbt":
            m2 = (cards.BASE_THEORY[f"m{q}"] * th.get(f"k{q}Thr", 1.0)) ** 2
            for q2 in (m2, float(np.nextafter(m2, 0.0))) + ((float(np.nextafter(m2, np.inf)),) if tier == "thorough" else ()):
                st = {"t": "cell", "kind": k, "heavyness": h, "process": p, "scheme": "ZM-VFNS", "pto": pto, "Q2": q2}
                if th:
                    st["theory"] = dict(th)
                out.append(st)
    # non-canonical projectiles, nuclear targets, polarised beam: the weights change, the RGE identities act on whatever central coefficients result
    for (k, p, proj), h, sc, extra in itertools.product(
        [("F2", "NC", "positron"), ("F3", "NC", "positron"), ("F2", "CC", "antineutrino"), ("F3", "CC", "antineutrino"), ("FL", "CC", "electron"), ("F3", "CC", "positron"), ("F2", "NC", "neutrino"), ("g1", "NC", "positron")],
        ["total", "light"], ["ZM-VFNS", "FFNS3"], [{}, {"target": "iron"}, {"obscard": {"PolarizationDIS": -0.6, "PropagatorCorrection": 0.05}, "target": "neutron"}],
    ):
        if sc == "FFNS3" and h == "light" and extra:
            continue
        out.append(dict({"t": "cell", "kind": k, "heavyness": h, "process": p, "scheme": sc, "pto": 2, "Q2": 30.0, "projectile": proj}, **extra))
    # combinations: DIS order different from the evolution order (the scale-variation manager follows the DIS order), TMC on (the corrections act key by key), asymptotic schemes
    for (k, p), sc, (pto, ptodis) in itertools.product([("F2", "NC"), ("F3", "CC"), ("FL", "NC")], ["ZM-VFNS", "FFNS3", "FFN03"], [(1, 2), (2, 1), (0, 2)]):
        out.append({"t": "cell", "kind": k, "heavyness": "total", "process": p, "scheme": sc, "pto": pto, "ptodis": ptodis, "Q2": 30.0})
    for (k, p, proj), sc in itertools.product([("F2", "NC", "positron"), ("F3", "CC", "antineutrino")], ["ZM-VFNS", "FFNS3"]):
        out.append({"t": "cell", "kind": k, "heavyness": "total", "process": p, "scheme": sc, "pto": 2, "Q2": 30.0, "projectile": proj, "target": "iron", "tmc": 1, "obscard": {"PolarizationDIS": 0.7}})
    for nf in (3, 4, 5, 6):
        out.append({"t": "moments", "nf": nf})
    # several n_f regions inside ONE runner (the splitting-operator cache of the scale-variation manager is shared by all points and observables)
    multis = [("NC", 2, ["F2_total", "FL_total"], [2.0, 10.0, 30.0]), ("CC", 2, ["F3_total", "F2_light"], [30.0, 10.0, 2.0]), ("EM", 1, ["FL_total", "F2_total"], [30.0, 2.0])]
    if tier == "thorough":
        multis += [("NC", 2, ["g1_total", "F2_total"], [1e5, 4.0, 30.0]), ("NC", 3, ["F2_light"], [10.0, 30.0]), ("CC", 2, ["FL_total", "F2_total", "F3_total"], [2.0, 1e5])]
    for proc, pto, obs, q2s in multis:
        out.append({"t": "multi", "process": proc, "scheme": "ZM-VFNS", "pto": pto, "obs": obs, "Q2s": q2s})
    return out


def _mats(nf, grid="G6"):
    """x-space matrices of all splitting labels on the grid for nf flavours (cached per worker)."""
    if (nf, grid) in _MATS:
        return _MATS[(nf, grid)]
    from yadism.coefficient_functions import splitting_functions as split

    basis = ref_basis.RefBasis(*cards.grid(grid))
    M = {}
    for lab, tri in ref_rge.lo_kernels(nf).items():
        M[lab] = ref_rge.xmatrix(tri, basis)
    for lab, fnc in split.raw_labels[1].items():
        if lab in M:
            continue
        tri, args = ref_rge.rsl_triple(fnc(nf))
        M[lab] = ref_rge.xmatrix(tri, basis, args)
    n = basis.n
    ops = {
        "P0": ref_rge.FlavourOperator(nf, n, V=M["P_qq_0"], B=M["P_qg_0"], C=M["P_gq_0"], D=M["P_gg_0"]),
        "P1": ref_rge.FlavourOperator(nf, n, V=0.5 * (M["P_nsp_1"] + M["P_nsm_1"]), Vb=0.5 * (M["P_nsp_1"] - M["P_nsm_1"]), S=(M["P_qq_1"] - M["P_nsp_1"]) / (2.0 * nf), Sb=(M["P_qq_1"] - M["P_nsp_1"]) / (2.0 * nf), B=M["P_qg_1"]),
        "P0P0": ref_rge.FlavourOperator(nf, n, V=M["P_qq_0^2"], S=M["P_qg_0P_gq_0"] / (2.0 * nf), Sb=M["P_qg_0P_gq_0"] / (2.0 * nf), B=M["P_qq_0P_qg_0"] + M["P_qg_0P_gg_0"]),
    }
    _MATS[(nf, grid)] = ops
    return ops


def _nf(st):
    fns, nfff = cards.SCHEMES[st["scheme"]]
    if fns == "ZM-VFNS":
        th = dict(cards.BASE_THEORY, **st.get("theory", {}))
        return 3 + sum(1 for q in "cbt" if (th[f"m{q}"] * th[f"k{q}Thr"]) ** 2 <= st["Q2"])
    return nfff


def _v(st, what, key, msg):
    fp = dict(st, cls=what, key=str(key))
    return {"fp": fp, "fpkey": {"cls": what, "key": str(key), "kind": st.get("kind"), "process": st.get("process"), "scheme": st.get("scheme"), "heavyness": st.get("heavyness")}, "msg": msg}


def _check_point(st, T, nf, x, desc, grid="G6"):
    """mu_R / mu_F identities for one kinematic point; T: key -> values tensor. Returns (viol, nontrivial, worstR, worstF) or None (non-finite)."""
    b0, b1 = ref_rge.beta0(nf), ref_rge.beta1(nf)
    viol = []
    nontrivial = False
    worstR = worstF = 0.0
    if not all(np.all(np.isfinite(v)) for v in T.values()):
        return None
    zero = np.zeros_like(T[(0, 0, 0, 0)])
    g = lambda k: T.get(k, zero)
    # ---- oracle 1a: mu_R identities on output keys
    preds = {}
    for j in range(0, 4):
        preds[(2, 0, 1, j)] = (-b0 * g((1, 0, 0, j)), [b0 * np.abs(g((1, 0, 0, j)))])
        preds[(3, 0, 1, j)] = (-b1 * g((1, 0, 0, j)) - 2 * b0 * g((2, 0, 0, j)), [b1 * np.abs(g((1, 0, 0, j))), 2 * b0 * np.abs(g((2, 0, 0, j)))])
        preds[(3, 0, 2, j)] = (b0 * b0 * g((1, 0, 0, j)), [b0 * b0 * np.abs(g((1, 0, 0, j)))])
    for key, (pred, terms) in preds.items():
        if key[0] > st.get("ptodis", st["pto"]):  # the DIS order decides which keys exist
            continue
        if key not in T:
            if np.any(pred != 0):
                viol.append(_v(st, "muR-key-missing", key, f"{desc}: key {key} missing but the RGE predicts a non-zero tensor"))
            continue
        sc = sum(terms) + np.abs(T[key])
        gmax = sc.max() if sc.size else 0.0
        d = np.abs(T[key] - pred)
        if gmax > 0:
            worstR = max(worstR, float(d.max() / gmax))
            nontrivial = True
        if np.any(d > TOL_R * (sc + gmax)):
            idx = np.unravel_index(np.argmax(d), d.shape)
            viol.append(_v(st, "muR-rge", key, f"{desc} x={x}: key {key} [pid {yrun.PIDS[idx[0]]}, j={idx[1]}] = {T[key][idx]:.10g}, mu_R RGE from lower keys gives {pred[idx]:.10g}"))
    # ---- oracle 1b: mu_F identities with reference DGLAP operators
    ops = _mats(nf, grid)
    c0 = ref_rge.strip_heavy(g((0, 0, 0, 0)), nf)
    c1 = ref_rge.strip_heavy(g((1, 0, 0, 0)), nf)
    fpreds = {(1, 0, 0, 1): ops["P0"].apply(c0)}
    if st.get("ptodis", st["pto"]) >= 2:
        fpreds[(2, 0, 0, 1)] = ops["P0"].apply(c1) + ops["P1"].apply(c0)
        fpreds[(2, 0, 0, 2)] = 0.5 * (ops["P0P0"].apply(c0) + b0 * ops["P0"].apply(c0))
    absops = None
    for key, pred in fpreds.items():
        if key not in T:
            viol.append(_v(st, "muF-key-missing", key, f"{desc}: key {key} missing"))
            continue
        val = T[key]
        sc = np.abs(val) + np.abs(pred)
        gmax = sc.max() if sc.size else 0.0
        d = np.abs(val - pred)
        if gmax > 0:
            worstF = max(worstF, float(d.max() / gmax))
            if np.any(pred != 0):
                nontrivial = True
        if np.any(d > TOL_F * (sc + gmax)):
            idx = np.unravel_index(np.argmax(d), d.shape)
            viol.append(_v(st, "muF-rge", key, f"{desc} x={x}: key {key} [pid {yrun.PIDS[idx[0]]}, j={idx[1]}] = {val[idx]:.10g}, DGLAP reference gives {pred[idx]:.10g} (|delta|={d[idx]:.3e})"))
        hr = ref_rge.heavy_rows(nf)
        if np.any(val[hr] != 0):
            viol.append(_v(st, "muF-on-heavy-rows", key, f"{desc} x={x}: key {key} has non-zero entries in heavy-quark (intrinsic) rows"))
    return viol, nontrivial, worstR, worstF

def states(tier, seed):
    """quick = the full base lattice; thorough = base lattice + the deep extension."""
    base = _states_base("thorough", seed)
    if tier == "quick":
        return base
    seen = {digest(s) for s in base}
    return base + [s for s in _states_deep(seed) if digest(s) not in seen]


def _states_deep(seed):
    """more schemes / flavours / Q2 (incl. FFNS5, FONLL), all PTO 3 cells, every grid of the alphabet, longer multi-n_f runners."""
    out = []
    for k, h, p, sc, pto, q2 in itertools.product(["F2", "FL", "F3", "g1", "gL", "g4"], ["light", "total", "charm", "bottom"], ["EM", "NC", "CC"], ["ZM-VFNS", "FFNS3", "FFNS4", "FFNS5", "FFN03", "FONLL-FFNS4", "FONLL-FFN03"], [1, 2], [2.0, 10.0, 300.0]):
        if pto == 2 and sc in ("FFN03", "FONLL-FFN03") and h in ("total", "charm", "bottom") and q2 != 300.0:
            continue  # slow asymptotic towers: one Q2
        out.append({"t": "cell", "kind": k, "heavyness": h, "process": p, "scheme": sc, "pto": pto, "Q2": q2})
    for k, h, p, sc, q2 in itertools.product(["F2", "FL", "F3"], ["light", "total"], ["EM", "NC", "CC"], ["ZM-VFNS", "FFNS3", "FFNS4"], [2.0, 10.0, 300.0]):
        out.append({"t": "cell", "kind": k, "heavyness": h, "process": p, "scheme": sc, "pto": 3, "Q2": q2})
    for g, k, p, pto in itertools.product(["L7", "G9", "D5", "G13", "G8", "D1", "U7", "UL6"], ["F2", "FL", "F3", "g1"], ["NC", "CC"], [1, 2]):
        out.append({"t": "cell", "kind": k, "heavyness": "total", "process": p, "scheme": "ZM-VFNS", "pto": pto, "Q2": 30.0, "grid": g})
    for proc, pto, obs, q2s in [("NC", 2, ["F2_total", "FL_total", "F3_total", "g1_total"], [2.0, 1e5, 10.0, 30.0, 2.0]), ("CC", 2, ["F2_total", "F3_light", "FL_total"], [1e5, 30.0, 10.0, 2.0]), ("EM", 3, ["F2_light", "FL_light"], [2.0, 30.0, 10.0]), ("NC", 1, ["g1_total", "gL_total", "g4_total", "F2_total"], [30.0, 2.0, 1e5, 10.0])]:
        out.append({"t": "multi", "process": proc, "scheme": "ZM-VFNS", "pto": pto, "obs": obs, "Q2s": q2s})
    return out


def execute(st):
    yrun.reset_memos()
    if st["t"] == "moments":
        return _moments(st)
    if st["t"] == "multi":
        return _multi(st)
    name = cards.obsname(st["kind"], st["heavyness"])
    xs_ = [x for x in XS if x >= cards.GRIDS[st.get("grid", "G6")][0][0] * 1.5] or [0.3, 0.8]
    obs = {name: [cards.kin(x, st["Q2"]) for x in xs_]}
    runs = {}
    for ren, fact in ((True, True), (True, False), (False, True), (False, False)):
        c = {k: st[k] for k in ("process", "scheme", "pto", "ptodis", "projectile", "target", "obscard", "tmc") if k in st}
        c["grid"] = st.get("grid", "G6")
        c["theory"] = dict(st.get("theory", {}), RenScaleVar=ren, FactScaleVar=fact)
        out, status = rel.try_run(c, obs)
        if status != "ok":
            return {"violations": [], "nontrivial": False, "outcome": status, "transitions": 1, "info": {"n_" + status.split(":")[0]: 1}}
        runs[(ren, fact)] = out
    nf = _nf(st)
    b0, b1 = ref_rge.beta0(nf), ref_rge.beta1(nf)
    viol = []
    nontrivial = False
    worstR = worstF = 0.0
    desc = f"{name} {st['process']} {st['scheme']} pto={st['pto']} Q2={st['Q2']} (nf={nf})"
    for i, x in enumerate(xs_):
        T = {k: v[0] for k, v in yrun.tensors(runs[(True, True)][name][i]).items()}
        r = _check_point(st, T, nf, x, desc, st.get("grid", "G6"))
        if r is None:
            return {"violations": [], "nontrivial": False, "outcome": "excluded:nonfinite", "transitions": 4, "info": {"n_excluded_nonfinite": 1}}
        viol += r[0]
        nontrivial = nontrivial or r[1]
        worstR, worstF = max(worstR, r[2]), max(worstF, r[3])
        # ---- oracle 2: switches
        for (ren, fact), out in runs.items():
            if ren and fact:
                continue
            S = {k: v for k, v in yrun.tensors(out[name][i]).items()}
            A = yrun.tensors(runs[(True, True)][name][i])
            if set(S) != set(A):
                viol.append(_v(st, "switch-keys", (ren, fact), f"{desc}: order keys differ with RenScaleVar={ren} FactScaleVar={fact}: {sorted(set(S) ^ set(A))}"))
                continue
            for k in sorted(S):
                off = (not ren and k[2] > 0) or (not fact and k[3] > 0)
                if off:
                    if np.any(S[k][0] != 0) or np.any(S[k][1] != 0):
                        viol.append(_v(st, "switch-not-zero", k, f"{desc} x={x}: key {k} is not identically 0 with RenScaleVar={ren} FactScaleVar={fact}"))
                        break
                else:
                    if not (np.array_equal(S[k][0], A[k][0]) and np.array_equal(S[k][1], A[k][1])):
                        viol.append(_v(st, "switch-changes-other", k, f"{desc} x={x}: key {k} changes when switching to RenScaleVar={ren} FactScaleVar={fact} (max |delta| {np.max(np.abs(S[k][0]-A[k][0])):.3e})"))
                        break
        if viol:
            break
    seen = set()
    uv = []
    for v in viol:
        kk = digest(v["fpkey"])
        if kk not in seen:
            seen.add(kk)
            uv.append(v)
    return {"violations": uv[:4], "nontrivial": nontrivial, "outcome": yrun.out_digest(runs[(True, True)]), "transitions": 4, "info": {"maxrel_muR": worstR, "maxrel_muF": worstF}}


def _multi(st):
    """points in several n_f regions inside one runner: every point must satisfy the identities with ITS n_f."""
    obs = {o: [cards.kin(x, q2) for q2 in st["Q2s"] for x in (0.01, 0.3)] for o in st["obs"]}
    c = {k: st[k] for k in ("process", "scheme", "pto")}
    out, status = rel.try_run(c, obs)
    if status != "ok":
        return {"violations": [], "nontrivial": False, "outcome": status, "transitions": 1, "info": {"n_" + status.split(":")[0]: 1}}
    viol = []
    nontrivial = False
    worstR = worstF = 0.0
    for o in st["obs"]:
        for i, kin in enumerate(obs[o]):
            nf = 3 + sum(1 for m in (1.51, 4.92, 172.5) if m * m <= kin["Q2"])
            T = {k: v[0] for k, v in yrun.tensors(out[o][i]).items()}
            r = _check_point(dict(st, kind=o.split("_")[0], heavyness=o.split("_")[1]), T, nf, kin["x"], f"{o} {st['process']} ZM-VFNS pto={st['pto']} Q2={kin['Q2']} (nf={nf}) in a runner with Q2 in {st['Q2s']} and observables {st['obs']}")
            if r is None:
                continue
            viol += r[0]
            nontrivial = nontrivial or r[1]
            worstR, worstF = max(worstR, r[2]), max(worstF, r[3])
    seen, uv = set(), []
    for v in viol:
        kk = digest(v["fpkey"])
        if kk not in seen:
            seen.add(kk)
            uv.append(v)
    return {"violations": uv[:4], "nontrivial": nontrivial, "outcome": yrun.out_digest(out), "transitions": 1, "sub": sum(len(v) for v in obs.values()), "info": {"maxrel_muR": worstR, "maxrel_muF": worstF}}


def _moments(st):
    """tie convolved labels to their factors and the library's LO kernels to the hand-written ones."""
    from yadism.coefficient_functions import splitting_functions as split

    nf = st["nf"]
    viol = []
    lib = {}
    for d in split.raw_labels:
        for lab, fnc in d.items():
            lib[lab] = ref_rge.rsl_triple(fnc(nf))
    hand = ref_rge.lo_kernels(nf)
    worst = 0.0

    def mom(lab, N):
        (reg, sing, delta), (ra, sa) = lib[lab]
        return ref_conv.moment(reg, ra, sing, sa, delta, N)[0]

    for N in (2.0, 3.0, 4.0, 6.0, 2.5, 7.5):
        for lab, tri in hand.items():
            mh = ref_conv.moment(tri[0], None, tri[1], None, tri[2], N)[0]
            ml = mom(lab, N)
            worst = max(worst, abs(mh - ml) / max(1.0, abs(mh)))
            if abs(mh - ml) > 1e-9 * max(1.0, abs(mh)):
                viol.append(_v(st, "lo-kernel", lab, f"library {lab}(N={N}, nf={nf}) = {ml:.12g}, hand-written LO splitting function = {mh:.12g}"))
        for lab, (a, b) in {"P_qq_0^2": ("P_qq_0", "P_qq_0"), "P_qg_0P_gq_0": ("P_qg_0", "P_gq_0"), "P_qq_0P_qg_0": ("P_qq_0", "P_qg_0"), "P_qg_0P_gg_0": ("P_qg_0", "P_gg_0")}.items():
            mc = mom(lab, N)
            mp = mom(a, N) * mom(b, N)
            worst = max(worst, abs(mc - mp) / max(1.0, abs(mp)))
            if abs(mc - mp) > 1e-8 * max(1.0, abs(mp)):
                viol.append(_v(st, "convolved-label", lab, f"{lab}(N={N}, nf={nf}) = {mc:.12g} but {a}(N)*{b}(N) = {mp:.12g}"))
    return {"violations": viol[:3], "nontrivial": True, "outcome": f"moments:{nf}", "transitions": 48, "info": {"maxrel_moments": worst}}


LEVEL_TEXT = (
    "Bounded-exhaustive model checking against an executable RGE reference: for every cell (kind x heavyness x process x scheme x PTO x n_f regime, 4 x points) the real run is executed with all four "
    "switch combinations; every scale-variation key is compared with (a) the mu_R renormalisation-group identities written on the output keys (exact, 1e-12, up to PTO 3 incl. mixed keys), "
    "(b) the mu_F identities c0 P0, c1 P0 + c0 P1, (c0 P0 P0 + beta0 c0 P0)/2 evaluated with independently built flavour-space DGLAP operators (hand-written valence/sea decomposition, reference "
    "convolution on the reference basis), and (c) the switch semantics (switched-off logs exactly 0, everything else bit-identical)."
    " The lattice includes Q2 exactly at / one ulp around every matching scale (default and kThr != 1 cards), runners spanning several n_f regions, other grids, non-canonical beams, nuclear targets and a polarised beam."
)
LEVEL_NOTE = (
    "Trusted: ref_conv/ref_basis, hand-written LO splitting functions, the library's NLO splitting kernels as functions of z (benchmarked against eko's anomalous dimensions by the test-suite; distribution "
    "consistency by C03; convolved labels tied to their factors by Mellin moments here). O(a_s^3) factorisation logs (3,0,0,j>0) are not claimed. Grid G6 only."
)
TECHNIQUE = "bounded-exhaustive enumeration of cells x switch combinations with conformance of every scale-variation key to an executable renormalisation-group reference model"
