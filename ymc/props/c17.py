"""C17 — applying a PDF contracts the operator with the right scales and couplings.

States:
 onehot : synthetic Outputs whose tensors are one-hot in (order key, pid, node) - every key of build_orders(3) (and an alpha_qed key) x pids x nodes x (xiR, xiF) -
          so each prefactor is observed in isolation; alpha_s / alpha callables and the PDF record their arguments;
 real   : real runner outputs x (xiR, xiF) x PDFs (full, lacking flavours, linear combinations) against ref_apply.predict;
 theory : the theory-card path apply_pdf_theory: FNS x PTO x (alphas, Qref, nfref) x kThr x ModEv x XIR over a muR lattice built from the matching scales
          k_q m_q (1±1e-9), sqrt(k_q) m_q, mid-points; alpha_s used = 4 pi * prediction of a one-hot (1,0,0,0) output with xf = x, compared with the independent RK reference.
"""
import copy
import itertools
import math

import numpy as np

from .. import cards, pdfs, rel, yrun
from ..engine import digest
from ..ref import ref_apply

HISTORY_SWEEP = True
ID = "C17"
PIDS = yrun.PIDS
G = cards.GRIDS["G6"][0]
XIS = [0.5, 1.0, 2.0, 1.7]
TOL_AS = 3e-6

RULE = (
    "onehot states = (order key incl. all of build_orders(3) and one alpha_qed key, pid, node) x all (xiR,xiF) in {0.5,1,2,1.7}^2: prediction must equal a_s^k alpha^l ln(1/xiR^2)^i ln(1/xiF^2)^j f(x_n, xiF^2 Q2)/x_n "
    "(1e-14), the coupling callables must be called at xiR*Q and the PDF at (x_n, xiF^2 Q2) (to 2 ulp), absent flavours are never queried; real states = real outputs x (xiR,xiF) x PDFs with linearity (1e-13); "
    "theory states = (FNS, NfFF, PTO, reference coupling set, kThr, ModEv, XIR) x muR lattice around the matching scales, alpha_s extracted from a one-hot output vs the RK reference (3e-6 for EXA; measured 6.7e-7); "
    "non-trivial = non-zero prediction; for theory states a muR within the window between sqrt(k) m and k m or within 1e-9 of a matching scale"
)
ASSUMPTIONS = [
    "alpha_s reference: DOP853 solution of the truncated beta function with pole-mass matching at (k_q m_q)^2 to relative order PTO (perturbative inverse downwards), n_f path reference -> target as the scheme prescribes; "
    "agreement with the coupling the library uses measured <= 5e-7 (1e-13 at LO); for ModEv=TRN only the reference point and the unknown-scheme rejection are demanded",
    "theory2 states: the card's alphaqed in {0.0075, 0.0123}, XIR and XIF in {1, 0.5, 2} through apply_pdf_theory on one-hot outputs with alpha / mixed-log keys and a Q2-dependent PDF",
    "theory cards: HQ=POLE, MaxNfAs=6, QED=0; masses default or (1.3,4.2,173), mass reference scales Qm equal to the masses, 2x or 0.75x the masses; FNS in {ZM-VFNS, FFNS, FFN0, FONLL-FFNS, FONLL-FFN0}; unknown FNS must raise ValueError",
    "one-hot outputs are synthetic Output objects built through the public constructors (Output(), ESFResult)",
]
BUDGET = {"quick": 900, "thorough": 3600}


class RecPDF:
    def __init__(self, missing=(), scale=1.0, shape=1):
        self.missing = set(missing)
        self.calls = []
        self.asked_flavor = []
        self.scale = scale
        self.shape = shape

    def hasFlavor(self, pid):
        self.asked_flavor.append(pid)
        return pid not in self.missing

    def xfxQ2(self, pid, x, Q2):
        self.calls.append((pid, x, Q2))
        base = (1.0 + 0.1 * PIDS.index(pid)) * x ** (0.3 * self.shape) * (1.0 - 0.5 * x) * (1.0 + 0.01 * math.log(Q2))
        return self.scale * base


class SumPDF:
    def __init__(self, a, f, b, g):
        self.a, self.f, self.b, self.g = a, f, b, g

    def hasFlavor(self, pid):
        return True

    def xfxQ2(self, pid, x, Q2):
        return self.a * self.f.xfxQ2(pid, x, Q2) + self.b * self.g.xfxQ2(pid, x, Q2)


def _orders():
    from yadism.esf import scale_variations as sv

    return [tuple(o) for o in sv.build_orders(3)] + [(1, 1, 0, 0), (0, 2, 1, 1)]


def _states_base(tier, seed):
    out = []
    for ki in range(len(_KEYS)):
        for pid, node in itertools.product([21, -3, 2] if tier == "quick" else [22, 21, -3, 2, 6, -6], [1, 4] if tier == "quick" else [0, 1, 4, 5]):
            out.append({"t": "onehot", "key": list(_KEYS[ki]), "pid": pid, "node": node})
    real = [("F2_total", "NC", "ZM-VFNS", 2), ("F3_total", "CC", "FFNS3", 1), ("XSHERANC_total", "NC", "ZM-VFNS", 1), ("g1_charm", "EM", "FFNS3", 2)]
    if tier == "thorough":
        real += [("FL_light", "EM", "ZM-VFNS", 3), ("F2_bottom", "NC", "FFNS4", 2), ("XSCHORUSCC_light", "CC", "ZM-VFNS", 2)]
    for (o, p, sc, pto), xr, xf in itertools.product(real, XIS, XIS):
        out.append({"t": "real", "obs": o, "process": p, "scheme": sc, "pto": pto, "xiR": xr, "xiF": xf})
    # outputs whose operators reach nodes far from the requested x: odd / high interpolation degrees with ln(muF) keys (the splitting operator interpolates a second time),
    # target mass corrections at large x and low Q2 (the operator lives at xi < x and on the integrals from xi to 1): the contraction runs over ALL nodes of the grid
    real2 = [("F2_total", "NC", "ZM-VFNS", 1, "G9", 0), ("F3_total", "CC", "ZM-VFNS", 1, "D5", 0), ("F2_total", "NC", "ZM-VFNS", 1, "G9", 1), ("FL_total", "EM", "ZM-VFNS", 1, "D5", 3), ("F2_total", "EM", "ZM-VFNS", 2, "G13", 1)]
    for (o, p, sc, pto, g, tmc), xr, xf in itertools.product(real2, [1.0, 2.0], XIS):
        out.append({"t": "real", "obs": o, "process": p, "scheme": sc, "pto": pto, "xiR": xr, "xiF": xf, "grid": g, "tmc": tmc})
    # theory path
    fnss = [("ZM-VFNS", 3), ("FFNS", 3), ("FFNS", 4), ("FFNS", 5), ("FONLL-FFNS", 4), ("FFN0", 3), ("FONLL-FFN0", 3)]
    refs = [(0.118, 91.2, 5), (0.35, 1.65, 4), (0.25, 3.0, 3)] if tier == "thorough" else [(0.118, 91.2, 5), (0.35, 1.65, 4)]
    kthr = [(1.0, 1.0, 1.0), (2.0, 2.0, 2.0), (0.5, 2.0, 1.0)] if tier == "thorough" else [(1.0, 1.0, 1.0), (2.0, 2.0, 2.0)]
    for (fns, nf), pto, ref, k, mod, xir in itertools.product(fnss, [0, 1, 2], refs, kthr, ["EXA", "TRN"], [1.0, 1.6]):
        if mod == "TRN" and (k != (1.0, 1.0, 1.0) or xir != 1.0 or pto == 0):
            continue
        if tier == "quick" and xir == 1.6 and (fns != "ZM-VFNS" or k == (1.0, 1.0, 1.0)):
            continue
        out.append({"t": "theory", "fns": fns, "nfff": nf, "pto": pto, "alphas": ref[0], "Qref": ref[1], "nfref": ref[2], "k": list(k), "ModEv": mod, "XIR": xir})
    # non-default masses and mass reference scales Qm != m (HQ=POLE: the matching scales and the matching logs follow the masses, never Qm)
    for (fns, nf), pto, k, (ms, qm) in itertools.product([("ZM-VFNS", 3), ("FFNS", 4), ("FONLL-FFN0", 3)], [1, 2], [(1.0, 1.0, 1.0), (2.0, 2.0, 2.0)], [(None, 2.0), ([1.3, 4.2, 173.0], 0.75), ([1.3, 4.2, 173.0], None)]):
        st = {"t": "theory", "fns": fns, "nfff": nf, "pto": pto, "alphas": 0.118, "Qref": 91.2, "nfref": 5, "k": list(k), "ModEv": "EXA", "XIR": 1.0, "qm": qm}
        if ms:
            st["m"] = ms
        out.append(st)
    # theory-card path: the card's alphaqed, XIR and XIF must be the ones used (one-hot outputs with an alpha key / a mixed log key, Q2-dependent PDF)
    for aq, xir, xif, fns in itertools.product([0.007496252, 0.0123], [1.0, 0.5, 2.0], [1.0, 0.5, 2.0], ["ZM-VFNS", "FFNS"]):
        out.append({"t": "theory2", "alphaqed": aq, "XIR": xir, "XIF": xif, "fns": fns})
    for bad in ("VFNS", "", "ZM"):
        out.append({"t": "theory", "fns": bad, "nfff": 3, "pto": 1, "alphas": 0.118, "Qref": 91.2, "nfref": 5, "k": [1.0, 1.0, 1.0], "ModEv": "EXA", "XIR": 1.0})
    return out


_KEYS = None


def _init_keys():
    global _KEYS
    if _KEYS is None:
        _KEYS = _orders()


try:
    _init_keys()
except Exception:  # import-time safety (states() needs yadism)
    _KEYS = [(k, 0, i, j) for k in range(4) for j in range(k + 1) for i in range(max(k, 1))] + [(1, 1, 0, 0), (0, 2, 1, 1)]


def _v(st, what, msg):
    fp = {k: (str(v) if isinstance(v, list) else v) for k, v in st.items()}
    fp["cls"] = what
    return {"fp": fp, "fpkey": {"cls": what, "t": st["t"], "key": str(st.get("key")), "fns": st.get("fns"), "pto": st.get("pto")}, "msg": msg}


def _synthetic(key, pid, node, Q2s, xs=None):
    from yadism.esf.result import ESFResult
    from yadism.output import Output

    out = Output()
    out["xgrid"] = {"grid": list(G), "log": True}
    out["pids"] = list(PIDS)
    out["polynomial_degree"] = 2
    out["is_log"] = True
    out["projectilePID"] = 11
    res = []
    for q2 in Q2s:
        v = np.zeros((14, len(G)))
        e = np.zeros((14, len(G)))
        v[PIDS.index(pid), node] = 1.0
        e[PIDS.index(pid), node] = 0.25
        res.append(ESFResult(0.1, q2, None, {tuple(key): (v, e)}))
    out["F2_total"] = res
    return out


def states(tier, seed):
    """quick = the full base lattice; thorough = base lattice + the deep extension."""
    base = _states_base("thorough", seed)
    if tier == "quick":
        return base
    seen = {digest(s) for s in base}
    return base + [s for s in _states_deep(seed) if digest(s) not in seen]


def _states_deep(seed):
    """one-hot states for all 14 pids x all 6 nodes x every key; theory-card path on the full product of schemes x PTO x reference couplings x kThr x masses/Qm x XIR."""
    out = []
    for ki in range(len(_KEYS)):
        for pid, node in itertools.product(PIDS, range(len(G))):
            out.append({"t": "onehot", "key": list(_KEYS[ki]), "pid": pid, "node": node})
    fnss = [("ZM-VFNS", 3), ("FFNS", 3), ("FFNS", 4), ("FFNS", 5), ("FFNS", 6), ("FONLL-FFNS", 3), ("FONLL-FFNS", 4), ("FONLL-FFNS", 5), ("FFN0", 3), ("FFN0", 4), ("FFN0", 5), ("FONLL-FFN0", 3), ("FONLL-FFN0", 4)]
    refs = [(0.118, 91.2, 5), (0.35, 1.65, 4), (0.25, 3.0, 3), (0.118, 91.2, 4), (0.2, 10.0, 5), (0.09, 500.0, 6)]
    kthr = [(1.0, 1.0, 1.0), (2.0, 2.0, 2.0), (0.5, 2.0, 1.0), (1.5, 0.75, 1.0), (3.0, 1.0, 0.5)]
    for (fns, nf), pto, ref, k, xir in itertools.product(fnss, [0, 1, 2], refs, kthr, [1.0, 1.6, 0.4]):
        out.append({"t": "theory", "fns": fns, "nfff": nf, "pto": pto, "alphas": ref[0], "Qref": ref[1], "nfref": ref[2], "k": list(k), "ModEv": "EXA", "XIR": xir})
    for (fns, nf), pto, ref, k, (ms, qm) in itertools.product(fnss[:6], [1, 2], refs[:3], kthr[:3], [(None, 2.0), ([1.3, 4.2, 173.0], 0.75), ([1.3, 4.2, 173.0], None), ([2.0, 5.5, 160.0], 1.5)]):
        st = {"t": "theory", "fns": fns, "nfff": nf, "pto": pto, "alphas": ref[0], "Qref": ref[1], "nfref": ref[2], "k": list(k), "ModEv": "EXA", "XIR": 1.0, "qm": qm}
        if ms:
            st["m"] = ms
        out.append(st)
    for aq, xir, xif, fns in itertools.product([0.001, 0.007496252, 0.0123, 0.1], [1.0, 0.5, 2.0, 0.3, 3.0], [1.0, 0.5, 2.0, 0.3, 3.0], ["ZM-VFNS", "FFNS", "FFN0", "FONLL-FFNS"]):
        out.append({"t": "theory2", "alphaqed": aq, "XIR": xir, "XIF": xif, "fns": fns})
    return out


def execute(st):
    yrun.reset_memos()
    return {"onehot": _onehot, "real": _real, "theory": _theory, "theory2": _theory2}[st["t"]](st)


def _theory2(st):
    th = copy.deepcopy(cards.BASE_THEORY)
    th.update({"FNS": st["fns"], "NfFF": 4, "PTO": 2, "alphaqed": st["alphaqed"], "XIR": st["XIR"], "XIF": st["XIF"]})
    Q2 = 7.3
    x_n = G[2]

    class QPDF:
        def hasFlavor(self, pid):
            return True

        def xfxQ2(self, pid, x, q2):
            return x * (1.0 + 0.1 * q2)

    viol = []
    mu = math.sqrt(Q2) * st["XIR"]
    a_s = ref_apply.alpha_s(th, mu) / (4 * math.pi)
    LR, LF = math.log(1.0 / st["XIR"] ** 2), math.log(1.0 / st["XIF"] ** 2)
    f = 1.0 + 0.1 * Q2 * st["XIF"] ** 2
    nz = 0
    for key in ((0, 1, 0, 0), (1, 1, 0, 0), (2, 0, 1, 1), (1, 0, 0, 1), (2, 0, 2, 0), (0, 2, 0, 0)):
        out = _synthetic(key, 2, 2, [Q2])
        yrun.log_cards(th, None)
        try:
            r = out.apply_pdf_theory(QPDF(), th)["F2_total"][0]
        except Exception as e:
            info = yrun.classify_exception(e)
            return {"violations": [_v(st, "theory-exception", f"apply_pdf_theory raised {info['exc']} at {info['inner']}: {info['excmsg']} for {st}")], "nontrivial": True, "outcome": info["exc"], "transitions": 1}
        k, l, i, j = key
        exp = a_s**k * st["alphaqed"] ** l * (LR**i if i else 1.0) * (LF**j if j else 1.0) * f
        if exp != 0:
            nz += 1
        tol = (TOL_AS * k + 1e-13) * abs(exp) + 1e-300
        if abs(r["result"] - exp) > tol:
            viol.append(_v(st, "theory-card-values", f"apply_pdf_theory with alphaqed={st['alphaqed']} XIR={st['XIR']} XIF={st['XIF']} FNS={st['fns']}: key {key} gives {r['result']!r}, expected a_s(xiR Q)^k alphaqed^l ln(1/xiR^2)^i ln(1/xiF^2)^j f(x, xiF^2 Q2)/x = {exp!r}"))
    return {"violations": viol[:2], "nontrivial": nz > 0, "outcome": digest([st, nz]), "transitions": 6, "sub": 6}


def _onehot(st):
    key, pid, node = tuple(st["key"]), st["pid"], st["node"]
    Q2 = 7.3
    out = _synthetic(key, pid, node, [Q2])
    viol = []
    nz = 0
    for xr, xf in itertools.product(XIS, XIS):
        pdf = RecPDF(missing=(3, -3) if pid not in (3, -3) else (4,))
        as_calls, aq_calls = [], []

        def a_s(mu):
            as_calls.append(mu)
            return 0.3 + 0.01 * mu

        def a_q(mu):
            aq_calls.append(mu)
            return 0.007 + 1e-4 * mu

        r = out.apply_pdf_alphas_alphaqed_xir_xif(pdf, a_s, a_q, xr, xf)["F2_total"][0]
        mu = math.sqrt(Q2) * xr
        x_n = G[node]
        f = RecPDF().xfxQ2(pid, x_n, Q2 * xf * xf) / x_n
        k, l, i, j = key
        LR, LF = math.log(1.0 / (xr * xr)), math.log(1.0 / (xf * xf))
        exp = ((0.3 + 0.01 * mu) / (4 * math.pi)) ** k * (0.007 + 1e-4 * mu) ** l * (LR**i if i else 1.0) * (LF**j if j else 1.0) * f
        if abs(r["result"] - exp) > 1e-14 * abs(exp) + 1e-300:
            viol.append(_v(st, "prefactor", f"key {key}, pid {pid}, node {node}, xiR={xr}, xiF={xf}: prediction {r['result']!r}, expected a_s^k alpha^l LR^i LF^j f/x = {exp!r}"))
        if abs(r["error"] - 0.25 * exp) > 1e-14 * abs(exp) + 1e-300:
            viol.append(_v(st, "error-prefactor", f"key {key}: error {r['error']!r}, expected {0.25*exp!r}"))
        if exp != 0:
            nz += 1
        if any(abs(m - mu) > 4e-16 * mu for m in as_calls + aq_calls) or not as_calls:
            viol.append(_v(st, "coupling-scale", f"key {key} xiR={xr}: couplings called at {sorted(set(as_calls + aq_calls))}, expected xiR*Q = {mu!r}"))
        bad = [c for c in pdf.calls if abs(c[2] - Q2 * xf * xf) > 4e-16 * Q2 * xf * xf or c[1] not in G]
        if bad:
            viol.append(_v(st, "pdf-arguments", f"xiF={xf}: PDF called with {bad[0]}, expected x in the grid and Q2 = xiF^2 Q2 = {Q2*xf*xf!r}"))
        if any(c[0] in pdf.missing for c in pdf.calls):
            viol.append(_v(st, "missing-flavour-queried", f"PDF queried for a flavour it does not provide: {[c[0] for c in pdf.calls if c[0] in pdf.missing][:3]}"))
        if r["x"] != 0.1 or r["Q2"] != Q2:
            viol.append(_v(st, "kinematics", f"result reports x={r['x']}, Q2={r['Q2']}"))
        if viol:
            break
    # a PDF that lacks exactly this flavour gives 0
    pdf = RecPDF(missing=(pid,))
    r = out.apply_pdf_alphas_alphaqed_xir_xif(pdf, lambda m: 0.3, lambda m: 0.007, 1.0, 1.0)["F2_total"][0]
    if r["result"] != 0.0:
        viol.append(_v(st, "missing-flavour-contributes", f"key {key}: PDF lacks pid {pid} but the prediction is {r['result']!r}"))
    return {"violations": viol[:2], "nontrivial": nz > 0, "outcome": digest([st["key"], pid, node]), "transitions": len(XIS) ** 2 + 1, "sub": len(XIS) ** 2}


_REAL = {}


def _real(st):
    keyc = (st["obs"], st["process"], st["scheme"], st["pto"], st.get("grid", "G6"), st.get("tmc", 0))
    G = cards.GRIDS[st.get("grid", "G6")][0]
    if keyc not in _REAL:
        pts = [cards.kin(0.05, 4.0, 0.4 if st["obs"].startswith("XS") else None), cards.kin(0.3, 90.0, 0.7 if st["obs"].startswith("XS") else None)]
        if "grid" in st:
            pts += [cards.kin(0.6, 2.0), cards.kin(0.8, 1.5), cards.kin(0.011, 30.0), cards.kin(0.85 * (1 - 1e-9), 5.0)]
        out, s = rel.try_run({"process": st["process"], "scheme": st["scheme"], "pto": st["pto"], "grid": st.get("grid", "G6"), "tmc": st.get("tmc", 0)}, {st["obs"]: pts})
        _REAL[keyc] = (out, s)
    out, s = _REAL[keyc]
    if s != "ok":
        return {"violations": [], "nontrivial": False, "outcome": s, "transitions": 1, "info": {"n_" + s.split(":")[0]: 1}}
    xr, xf = st["xiR"], st["xiF"]
    a_s = lambda mu: 0.2 + 0.3 / (1 + mu)
    a_q = lambda mu: 0.0075
    f, g = RecPDF(shape=1), RecPDF(missing=(3, -3, 21), scale=0.7, shape=2)
    viol = []
    nz = False
    preds = {}
    for name, pdf in (("f", f), ("g", g), ("sum", SumPDF(1.3, RecPDF(shape=1), -0.4, RecPDF(scale=0.7, shape=2)))):
        got = out.apply_pdf_alphas_alphaqed_xir_xif(pdf, a_s, a_q, xr, xf)[st["obs"]]
        preds[name] = got
        for i, res in enumerate(out[st["obs"]]):
            mu = math.sqrt(res.Q2) * xr
            exp, experr = ref_apply.predict({k: v for k, v in yrun.tensors(res).items()}, PIDS, G, pdf if name != "g" else RecPDF(missing=(3, -3, 21), scale=0.7, shape=2), res.Q2, a_s(mu) / (4 * math.pi), a_q(mu), xr, xf)
            if not math.isfinite(exp):
                continue
            sc = abs(exp) + 1e-300
            if abs(got[i]["result"] - exp) > 1e-11 * _absscale(res, pdf, a_s(mu) / (4 * math.pi), xr, xf, G):
                viol.append(_v(st, "contraction", f"{st['obs']} {st['process']} {st['scheme']} pto={st['pto']} point {i} xiR={xr} xiF={xf} pdf={name}: prediction {got[i]['result']:.14g}, reference contraction {exp:.14g}"))
            if exp != 0:
                nz = True
            if got[i]["x"] != res.x or got[i]["Q2"] != res.Q2 or ("y" in got[i]) != hasattr(res, "y"):
                viol.append(_v(st, "kinematics", f"{st['obs']} point {i}: prediction carries {got[i]}"))
    # linearity: sum = 1.3 f - 0.4 g'(all flavours) is checked through the reference above; additionally f-only doubling
    got2 = out.apply_pdf_alphas_alphaqed_xir_xif(SumPDF(2.0, RecPDF(shape=1), 0.0, RecPDF(shape=1)), a_s, a_q, xr, xf)[st["obs"]]
    for i in range(len(got2)):
        a, b = got2[i]["result"], 2.0 * preds["f"][i]["result"]
        if abs(a - b) > 1e-13 * (abs(a) + abs(b)) + 1e-300:
            viol.append(_v(st, "linearity", f"{st['obs']} point {i}: apply(2 f) = {a!r} but 2 apply(f) = {b!r}"))
    return {"violations": viol[:2], "nontrivial": nz, "outcome": digest([keyc, xr, xf, [p["result"] for p in preds["f"]]]), "transitions": 4}


def _absscale(res, pdf, a_s, xr, xf, G=G):
    """sum of absolute contributions (cancellation-safe scale)."""
    tot = 0.0
    muF2 = res.Q2 * xf * xf
    f = np.zeros((14, len(G)))
    for i, pid in enumerate(PIDS):
        if pdf.hasFlavor(pid):
            f[i] = [abs(pdf.xfxQ2(pid, x, muF2) / x) for x in G]
    LR, LF = abs(math.log(1.0 / (xr * xr))), abs(math.log(1.0 / (xf * xf)))
    for (k, l, i, j), (v, e) in yrun.tensors(res).items():
        if not np.all(np.isfinite(v)):
            continue
        tot += a_s**k * 0.0075**l * (LR**i if i else 1.0) * (LF**j if j else 1.0) * float(np.sum(np.abs(v) * f))
    return tot + 1e-300


def _mu_lattice(theory):
    pts = [1.2, 3.0, 30.0, 91.2, 300.0]
    ts = []
    for q in "cbt":
        m, k = theory[f"m{q}"], theory[f"k{q}Thr"]
        t = m * k
        ts.append(t)
        pts += [t * (1 - 1e-9), t * (1 + 1e-9), m * math.sqrt(k) * (1 + 1e-6), m * (1 + 1e-6)]
        if k != 1.0:
            pts += [0.5 * (m * math.sqrt(k) + m * k)]
    ts = sorted(ts)
    pts += [math.sqrt(a * b) for a, b in zip(ts[:-1], ts[1:])]
    return sorted(set(p for p in pts if 1.1 < p < 5000.0))


def _theory(st):
    th = copy.deepcopy(cards.BASE_THEORY)
    th.update({"FNS": st["fns"], "NfFF": st["nfff"], "PTO": st["pto"], "alphas": st["alphas"], "Qref": st["Qref"], "nfref": st["nfref"], "kcThr": st["k"][0], "kbThr": st["k"][1], "ktThr": st["k"][2], "ModEv": st["ModEv"], "XIR": st["XIR"], "XIF": 1.0})
    if st.get("m"):
        th.update({"mc": st["m"][0], "mb": st["m"][1], "mt": st["m"][2], "Qmc": st["m"][0], "Qmb": st["m"][1], "Qmt": st["m"][2]})
    if st.get("qm"):
        th.update({f"Qm{q}": th[f"m{q}"] * st["qm"] for q in "cbt"})
    mus = _mu_lattice(th)
    Q2s = [(mu / st["XIR"]) ** 2 for mu in mus]
    out = _synthetic((1, 0, 0, 0), 1, 2, Q2s)

    class XPDF:
        def hasFlavor(self, pid):
            return True

        def xfxQ2(self, pid, x, Q2):
            return x

    known = st["fns"] in ("ZM-VFNS", "FFNS", "FFN0", "FONLL-FFNS", "FONLL-FFN0")
    try:
        yrun.log_cards(th, None)
        got = out.apply_pdf_theory(XPDF(), th)["F2_total"]
    except ValueError as e:
        if not known:
            return {"violations": [], "nontrivial": True, "outcome": "rejected", "transitions": 1}
        return {"violations": [_v(st, "theory-rejected", f"apply_pdf_theory raised ValueError for a valid card: {e}")], "nontrivial": True, "outcome": "rejected", "transitions": 1}
    except Exception as e:
        info = yrun.classify_exception(e)
        return {"violations": [_v(st, "theory-exception", f"apply_pdf_theory raised {info['exc']} at {info['inner']}: {info['excmsg']} for {st}")], "nontrivial": True, "outcome": info["exc"], "transitions": 1}
    if not known:
        return {"violations": [_v(st, "unknown-scheme-accepted", f"FNS={st['fns']!r} was accepted by apply_pdf_theory")], "nontrivial": True, "outcome": "accepted", "transitions": 1}
    viol = []
    worst = 0.0
    nontrivial = False
    for mu, r in zip(mus, got):
        alpha_used = 4 * math.pi * r["result"]
        if st["ModEv"] == "TRN":
            # structural fact only: at the reference point with the reference flavour number the input value is reproduced
            if abs(mu - st["Qref"]) < 1e-12 and ref_apply.nf_at(th, mu * mu) == st["nfref"]:
                if abs(alpha_used - st["alphas"]) > 1e-10:
                    viol.append(_v(st, "reference-point", f"alpha_s(Qref) = {alpha_used!r}, card says {st['alphas']}"))
            continue
        exp = ref_apply.alpha_s(th, mu)
        reld = abs(alpha_used - exp) / exp
        worst = max(worst, reld)
        ts = [th[f"m{q}"] * th[f"k{q}Thr"] for q in "cbt"]
        if any(abs(mu / t - 1) < 1e-8 for t in ts) or any(th[f"k{q}Thr"] != 1.0 and min(th[f"m{q}"] * math.sqrt(th[f"k{q}Thr"]), th[f"m{q}"] * th[f"k{q}Thr"]) < mu < max(th[f"m{q}"] * math.sqrt(th[f"k{q}Thr"]), th[f"m{q}"] * th[f"k{q}Thr"]) for q in "cbt"):
            nontrivial = True
        if reld > TOL_AS:
            viol.append(_v(st, "alpha_s", f"FNS={st['fns']} NfFF={st['nfff']} PTO={st['pto']} alphas({st['Qref']})={st['alphas']} nfref={st['nfref']} kThr={st['k']} XIR={st['XIR']}: alpha_s used at muR={mu!r} is {alpha_used:.10g}, reference (n_f={ref_apply.nf_at(th, mu*mu)}) {exp:.10g} (rel {reld:.2e})"))
            break
    return {"violations": viol[:1], "nontrivial": nontrivial or st["ModEv"] == "EXA", "outcome": digest([st, [round(r["result"], 12) for r in got]]), "transitions": len(mus), "sub": len(mus), "info": {"maxrel_alphas": worst}}


LEVEL_TEXT = (
    "Bounded-exhaustive model checking of the PDF application: (i) every order key (all of build_orders(3) plus alpha_qed keys) x pids x nodes as a synthetic one-hot output x all 16 (xiR,xiF) pairs, so that each prefactor, "
    "the arguments passed to the coupling callables and to the PDF, and the handling of absent flavours are observed in isolation; (ii) real outputs x (xiR,xiF) x PDFs against an independent contraction incl. linearity; "
    "(iii) the theory-card path over FNS x NfFF x PTO x reference couplings x kThr x ModEv x XIR on a muR lattice built from the matching scales (k m (1±1e-9), sqrt(k) m, interior of the k-windows), the coupling actually used "
    "being extracted from a one-hot output and compared with an independent Runge-Kutta solution with threshold matching."
    " The theory-card path also covers non-default masses, mass reference scales Qm != m and the card's alphaqed, XIR and XIF (one-hot outputs with alpha and mixed-log keys, Q2-dependent PDF)."
)
LEVEL_NOTE = "Trusted: ref_apply (beta-function coefficients, pole-mass matching coefficients, DOP853). HQ=POLE only; QED running not covered; TRN only structurally."
TECHNIQUE = "bounded-exhaustive enumeration (one-hot order keys x scales; theory cards x boundary scales) with conformance to an executable reference"
