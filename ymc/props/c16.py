"""C16 — every documented configuration yields a finite result or a clear rejection.

Bounded-exhaustive enumeration of the configuration lattice (four fully crossed
slices, see DESIGN.md §4/C16); oracle = classification of the outcome of the real
run_yadism call.
"""
import itertools
import math

import numpy as np

from .. import cards, yrun
from ..engine import digest

HISTORY_SWEEP = True
ID = "C16"

SF_KINDS = ["F2", "FL", "F3", "g1", "gL", "g4"]
XS_KINDS = ["XSHERANC", "XSHERANCAVG", "XSHERACC", "XSCHORUSCC", "XSNUTEVCC", "XSNUTEVNU", "FW", "F1", "g5", "XSFPFCC"]
KINDS = SF_KINDS + XS_KINDS
HEAVY = ["light", "total", "charm", "bottom", "top", "charmlight", "bottomlight"]
PROCS = ["EM", "NC", "CC"]
PROJ = ["electron", "positron", "neutrino", "antineutrino"]
SCHEMES = list(cards.SCHEMES)
POLARISED = {"g1", "gL", "g4", "g5"}

XMIN = cards.GRIDS["G6"][0][0]
KIN = {
    "central": (0.1, 30.0),
    "smallx": (XMIN * (1 + 1e-9), 1e4),
    "thr": (0.1, 4 * 1.51**2 * 0.1 / 0.9 * 1.001),
    "nf4": (0.1, 10.0),
    "high": (0.1, 1e5),  # above the top threshold: nf=6 in ZM-VFNS
}
INVALID_KIN = [
    ("x=0", 0.0, 30.0),
    ("x<0", -0.1, 30.0),
    ("x>1", 1 + 1e-9, 30.0),
    ("x<xmin", XMIN * (1 - 1e-9), 30.0),
    ("Q2=0", 0.1, 0.0),
    ("Q2<0", 0.1, -1.0),
]

RULE = (
    "states = cells (kind, heavyness, process, projectile, scheme(FNS,NfFF), PTO, TMC, kinematic point) enumerated as the union "
    "of fully crossed slices (S_core, S_proj, S_tmc, S_kin, S_invalid); each state is one real run_yadism call with one observable "
    "at one point on grid G6; non-trivial = the run returned an operator with at least one non-zero entry, or was rejected; "
    "distinct_outcomes = distinct (classification, exception class/site) values"
)
ASSUMPTIONS = [
    "only grid G6 (6 nodes, degree 2, log) and the five kinematic points central/smallx/thr/nf4/high (ZM-VFNS nf=3,4,5,6) plus the invalid-kinematics menu",
    "explicit rejection = ValueError or NotImplementedError whose innermost traceback frame is a literal `raise` statement (a ValueError escaping from list.index, float(), numpy etc. is an internal failure), or ModuleNotFoundError raised by the kind/process dispatch for polarised kinds with CC only",
    "pairs of axes that never meet inside one slice (e.g. TMC x NfFF 5, TMC x extra projectiles) are outside the bound",
    "proton target, default EW parameters, unpolarised beam except in slice S_options (three option combinations of target / polarisation / propagator correction / NCPositivityCharge); PTODIS != PTO only in S_ptodis; n3lo_cf_variation in {-1,1} only in S_n3lovar",
]
BUDGET = {"quick": 1500, "thorough": 7200}


def _cell(kind, heavy, proc, proj, scheme, pto, tmc, kinp):
    return {
        "kind": kind,
        "heavyness": heavy,
        "process": proc,
        "projectile": proj,
        "scheme": scheme,
        "pto": pto,
        "tmc": tmc,
        "kin": kinp,
    }


def slices(tier):
    s = {}
    core_schemes = SCHEMES
    canon = cards.CANONICAL_PROJECTILE
    if tier == "quick":
        s["S_core_pto01"] = [
            _cell(k, h, p, canon[p], sc, pto, 0, "central")
            for k, h, p, sc, pto in itertools.product(KINDS, HEAVY, PROCS, core_schemes, [0, 1])
            if not (sc.startswith(("FFN0", "FONLL-FFN0")) and pto == 1 and sc[-1] != "3" and k in XS_KINDS)
        ]
        s["S_core_pto23"] = [
            _cell(k, h, p, canon[p], sc, pto, 0, "central")
            for k, h, p, sc, pto in itertools.product(KINDS, HEAVY, PROCS, core_schemes, [2, 3])
            if not (k in XS_KINDS and sc not in ("ZM-VFNS", "FFNS3", "FFN03", "FONLL-FFNS4"))
        ]
        s["S_tmc_pto01"] = [
            _cell(k, h, p, canon[p], sc, pto, tmc, "central")
            for k, h, p, sc, pto, tmc in itertools.product(KINDS, HEAVY, PROCS, ["ZM-VFNS", "FFNS3", "FFN03"], [0, 1], [1, 2, 3])
            if not (pto == 1 and k in XS_KINDS and sc != "ZM-VFNS")
        ]
        s["S_nf_zm"] = [
            _cell(k, h, p, canon[p], "ZM-VFNS", pto, 0, kp)
            for k, h, p, pto, kp in itertools.product(KINDS, HEAVY, PROCS, [0, 1], ["thr", "nf4", "high"])
        ]
        # non-canonical projectiles (anti-leptons, charged-lepton CC, neutrino NC/EM)
        s["S_proj_q"] = [
            _cell(k, h, p, pr, sc, 0, 0, "central")
            for k, h, p, pr, sc in itertools.product(KINDS, HEAVY, PROCS, PROJ, ["ZM-VFNS", "FFNS3", "FFN03", "FONLL-FFNS4", "FONLL-FFN04"])
            if pr != canon[p]
        ] + [
            _cell(k, h, p, pr, sc, 1, 0, "central")
            for k, h, p, pr, sc in itertools.product(SF_KINDS, HEAVY, PROCS, PROJ, ["ZM-VFNS", "FFNS3", "FFN03"])
            if pr != canon[p] and not (sc == "FFN03" and h != "charm")
        ]
    else:
        s["S_core"] = [
            _cell(k, h, p, canon[p], sc, pto, 0, "central")
            for k, h, p, sc, pto in itertools.product(KINDS, HEAVY, PROCS, core_schemes, [0, 1, 2, 3])
        ]
        s["S_proj"] = [
            _cell(k, h, p, pr, sc, pto, 0, "central")
            for k, h, p, pr, sc, pto in itertools.product(KINDS, HEAVY, PROCS, PROJ, core_schemes, [0, 1])
            if pr != canon[p]
        ]
        s["S_tmc"] = [
            _cell(k, h, p, canon[p], sc, pto, tmc, "central")
            for k, h, p, sc, pto, tmc in itertools.product(
                KINDS, HEAVY, PROCS, ["ZM-VFNS", "FFNS3", "FFN03"], [0, 1, 2], [1, 2, 3]
            )
        ]
        s["S_kin"] = [
            _cell(k, h, p, canon[p], sc, pto, 0, kp)
            for k, h, p, sc, pto, kp in itertools.product(KINDS, HEAVY, PROCS, core_schemes, [0, 1, 2], ["smallx", "thr", "nf4", "high"])
        ]
    # rarely used card options: DIS order different from the evolution order (the latter steers the asymptotic log towers),
    # N3LO coefficient-function variations, and combinations of target / polarisation / propagator correction / positivity charge
    s["S_ptodis"] = [
        dict(_cell(k, h, p, canon[p], sc, pto_evol, 0, "central"), ptodis=ptodis)
        for k, h, p, sc, pto_evol, ptodis in itertools.product(SF_KINDS, ["total", "charm"], PROCS, ["ZM-VFNS", "FFNS3", "FFN03", "FONLL-FFN04"], [0, 1, 2], [0, 1, 2, 3])
        if ptodis != pto_evol and not (tier == "quick" and ptodis == 3 and sc != "FFN03")
    ]
    s["S_n3lovar"] = [
        dict(_cell(k, h, p, canon[p], sc, 3, 0, "central"), n3lovar=var)
        for k, h, p, sc, var in itertools.product(["F2", "FL", "g1", "XSHERANC"], ["total", "charm", "light"], ["EM", "NC"], ["ZM-VFNS", "FFNS3", "FFN03", "FONLL-FFN04", "FONLL-FFNS3"], [-1, 1])
    ]
    opts = [
        {"TargetDIS": {"Z": 23.403, "A": 49.618}, "PolarizationDIS": -0.8, "PropagatorCorrection": 0.1},
        {"TargetDIS": "neutron", "NCPositivityCharge": "strange"},
        {"TargetDIS": "lead", "PolarizationDIS": 1.0, "NCPositivityCharge": "all"},
    ]
    s["S_options"] = [
        dict(_cell(k, h, p, pr, sc, pto, tmc, "central"), opts=oi)
        for k, h, p, sc, pto, tmc, oi in itertools.product(KINDS, ["total", "charm"], PROCS, ["ZM-VFNS", "FFNS3"], [0, 1] if tier == "quick" else [0, 1, 2, 3], [0, 1], range(len(opts)))
        for pr in ([canon[p]] if tier == "quick" else [canon[p], "positron"])
        if not (tier == "quick" and tmc == 1 and pto == 1 and k in XS_KINDS)
    ]
    s["S_invalid"] = [
        _cell(k, "total", p, canon[p], "ZM-VFNS", 0, tmc, inv[0])
        for k, p, tmc, inv in itertools.product(KINDS, PROCS, [0, 1], INVALID_KIN)
    ]
    return s


def states(tier, seed):
    out = []
    seen = set()
    for name, cells in slices(tier).items():
        for c in cells:
            key = digest(c)
            if key in seen:
                continue
            seen.add(key)
            c = dict(c)
            c["slice"] = name
            out.append(c)
    return out


def bounds(tier):
    return {name: len(cells) for name, cells in slices(tier).items()}


def excluded(tier):
    if tier == "quick":
        return {
            "quick tier: cross-section kinds at PTO 1 in FFN0/FONLL-FFN0 with NfFF 4,5 (slow asymptotic kernels x3 structure functions); run in thorough": 10
            * 7
            * 3
            * 4,
            "quick tier: S_proj beyond PTO 0 (all kinds, 5 schemes) and PTO 1 (structure functions, 3 schemes), S_kin (except ZM-VFNS corners), PTO 2 of S_tmc, cross-section kinds at PTO 2,3 outside {ZM-VFNS,FFNS3,FFN03,FONLL-FFNS4}": 0,
        }
    return {}


def worker_init():
    pass


def kin_of(cell):
    kp = cell["kin"]
    if kp in KIN:
        x, q2 = KIN[kp]
    else:
        _, x, q2 = [i for i in INVALID_KIN if i[0] == kp][0]
    k = {"x": x, "Q2": q2}
    if cell["kind"] in XS_KINDS:
        k["y"] = 0.5
    return k


OPTS = [
    {"TargetDIS": {"Z": 23.403, "A": 49.618}, "PolarizationDIS": -0.8, "PropagatorCorrection": 0.1},
    {"TargetDIS": "neutron", "NCPositivityCharge": "strange"},
    {"TargetDIS": "lead", "PolarizationDIS": 1.0, "NCPositivityCharge": "all"},
]


def _full_cell(cell):
    c = dict(cell)
    th = {}
    if "ptodis" in cell:
        th["PTODIS"] = cell["ptodis"]
    if "n3lovar" in cell:
        th["n3lo_cf_variation"] = cell["n3lovar"]
    if th:
        c["theory"] = th
    if "opts" in cell:
        c["obscard"] = dict(OPTS[cell["opts"]])
    return c


def execute(cell):
    yrun.reset_memos()
    name = cards.obsname(cell["kind"], cell["heavyness"])
    kin = kin_of(cell)
    invalid = cell["kin"] not in KIN
    fpbase = {k: cell[k] for k in ("kind", "heavyness", "process", "projectile", "scheme", "pto", "tmc", "kin")}
    for extra in ("ptodis", "n3lovar", "opts"):
        if extra in cell:
            fpbase[extra] = cell[extra]
    fpbase["dis_order"] = cell.get("ptodis", cell["pto"])  # PTODIS if given, else PTO
    fpbase["polarised"] = cell["kind"] in POLARISED
    fpbase["is_xs"] = cell["kind"] in XS_KINDS
    try:
        out = yrun.run(_full_cell(cell), {name: [kin]})
    except (ValueError, NotImplementedError) as e:
        info = yrun.classify_exception(e)
        if not yrun.raised_explicitly(e):
            # e.g. list.index / float() failing inside library code: an internal lookup failure, not a rejection
            fp = dict(fpbase, cls="exception", **info)
            return _viol(fp, f"{name} proc={cell['process']} {cell['scheme']} pto={cell['pto']} tmc={cell['tmc']} kin={cell['kin']}: {info['exc']} not raised by an explicit raise statement, at {info['site']} ({info['inner']}): {info['excmsg']}")
        return {
            "violations": [],
            "nontrivial": True,
            "outcome": f"rejected:{info['exc']}:{info['site']}",
            "transitions": 1,
            "info": {"n_rejected_explicitly": 1},
        }
    except ModuleNotFoundError as e:
        info = yrun.classify_exception(e)
        ok = (
            cell["process"] == "CC"
            and cell["kind"] in POLARISED
            and info["site"].endswith("kernels.py:import_local")
        )
        if ok:
            return {
                "violations": [],
                "nontrivial": True,
                "outcome": "rejected_via_dispatch",
                "transitions": 1,
                "info": {"n_rejected_via_dispatch": 1},
            }
        fp = dict(fpbase, cls="exception", **info)
        return _viol(fp, f"{name} {cell}: {info['exc']} at {info['site']}: {info['excmsg']}")
    except Exception as e:
        info = yrun.classify_exception(e)
        fp = dict(fpbase, cls="exception", **info)
        return _viol(fp, f"{name} proc={cell['process']} {cell['scheme']} pto={cell['pto']} tmc={cell['tmc']} kin={cell['kin']}: {info['exc']} at {info['site']} ({info['inner']}): {info['excmsg']}")
    if invalid:
        fp = dict(fpbase, cls="invalid-kinematics-accepted")
        return _viol(fp, f"{name} kinematics {kin} ({cell['kin']}) accepted instead of rejected")
    res = out[name][0]
    bad = []
    nonzero = False
    for o, (v, e) in yrun.tensors(res).items():
        if not (np.all(np.isfinite(v)) and np.all(np.isfinite(e))):
            bad.append(o)
        if np.any(v != 0):
            nonzero = True
    if bad:
        fp = dict(fpbase, cls="nonfinite", orders=str(sorted(bad)), cause=_nan_cause())
        return _viol(fp, f"{name} proc={cell['process']} {cell['scheme']} pto={cell['pto']} tmc={cell['tmc']} kin={cell['kin']}: non-finite entries in orders {sorted(bad)}")
    return {
        "violations": [],
        "nontrivial": nonzero,
        "outcome": "finite" if nonzero else "finite_zero",
        "transitions": 1,
        "info": {"n_ok_nonzero" if nonzero else "n_ok_zero": 1},
    }


def _nan_cause():
    """Root-cause marker: did this run load a shipped N3LO heavy grid whose spline is NaN?"""
    try:
        from yadism.coefficient_functions.heavy import n3lo

        bad = sorted(
            name.split("_nf")[0] for name, sp in n3lo.interpolators.items() if not np.all(np.isfinite(sp.get_coeffs()))
        )
        if bad:
            return "heavy/n3lo grid with NaN: " + ",".join(sorted(set(bad)))
    except Exception:
        pass
    return "unknown"


def _viol(fp, msg):
    fpkey = {k: fp[k] for k in ("cls", "exc", "site", "inner", "orders", "cause") if k in fp}
    return {
        "violations": [{"fp": fp, "fpkey": fpkey, "msg": msg}],
        "nontrivial": True,
        "outcome": "violation:" + digest(fpkey),
        "transitions": 1,
    }

LEVEL_TEXT = (
    "Bounded-exhaustive model checking of the configuration lattice: every cell of four fully crossed slices "
    "(kind x heavyness x process x scheme/NfFF x PTO; x projectile; x TMC; x kinematic corner; plus the invalid-kinematics menu) "
    "is executed on the real run_yadism and its outcome is classified by an oracle into finite / explicitly rejected / violation. "
    "Nothing is sampled inside a slice; axes pairs that never meet in a slice and kinematics other than the listed points are outside the bound."
)
LEVEL_NOTE = (
    "Trusted: CPython, numpy isfinite, the traceback module (innermost yadism frame = fingerprint). ValueError/NotImplementedError are taken as "
    "'explicit rejection' only when produced by a literal raise statement (whatever their text); ModuleNotFoundError from the kind/process dispatch is accepted only for polarised kinds with CC. "
    "Open known findings (known_findings.json): N3LO massive grids with NaN; g1 at PTO 3."
)
TECHNIQUE = "explicit enumeration of a finite configuration lattice on the real implementation with an outcome-classification oracle (bounded-exhaustive model checking)"
