"""C07 — heavyness, FONLL-part and coupling-restricted results add up.

Relation explorer: the state is a base cell, execute() performs all related real
runs and checks the stated partition entry-by-entry on every order key.
"""
import itertools
import math

import numpy as np

from .. import cards, rel, yrun
from ..engine import digest

HISTORY_SWEEP = True
HISTORY_SWEEP_PER_PROCESS = 5  # each state already consists of several real runs
ID = "C07"
SF_KINDS = ["F2", "FL", "F3", "g1", "gL", "g4"]
PROCS = ["EM", "NC", "CC"]
XS = [0.01, math.sqrt(0.01 * 0.1), 0.3 * (1 + 1e-9), 0.8]
TARGETS = {"proton": "proton", "isoscalar": "isoscalar", "iron": "iron"}
HEAVY_SCHEMES = ["ZM-VFNS", "FFNS3", "FFNS4", "FFNS5", "FFN03", "FFN04", "FFN05", "FONLL-FFNS3", "FONLL-FFNS4", "FONLL-FFN03", "FONLL-FFN04"]
FONLL_SCHEMES = ["FONLL-FFNS3", "FONLL-FFNS4", "FONLL-FFNS5", "FONLL-FFN03", "FONLL-FFN04", "FONLL-FFN05"]
RTOL = 1e-12

RULE = (
    "states = base cells (relation, kind, process, PTO, scheme, target, Q2); each state performs the related real runs "
    "(R1/R2: total, light, charm, bottom, top in one run; R3: FONLLParts full/massless/massive; R4: NCPositivityCharge in d,u,s,c,b,t,None,'all') "
    "at 4 x points and compares every order key (incl. scale-variation keys) entry-wise on the values, |delta| <= 1e-12*(sum|terms| + max over the tensor of sum|terms|); "
    "non-trivial = the compared left-hand side has a non-zero entry"
)
ASSUMPTIONS = [
    "a sub-lattice (PTO 1, four schemes) crosses R1-R4 with TMC modes 1 and 3, non-canonical projectiles and five cross-section kinds (y = 0.4): all are linear in the structure functions, so the partitions must survive them",
    "grid G6, x in {0.01, 0.0316, 0.3(1+1e-9), 0.8}; Q2 in {2,4,30,1e5} (ZM: nf=3..6) ",
    "R1 is demanded in the form total = light + sum over the flavours that are massive in that scheme (h > NfFF); for NfFF>=4 the lighter 'heavy' observables are sub-parts of light by design and adding them would double count",
    "entries that are non-finite on both sides (N3LO massive grids, C16 known finding) are counted, not flagged; one-sided non-finite entries are violations",
    "the identity is checked on operator values; quadrature error estimates are combined with |weights| by the code and are not additive, so they are only compared where bit-identity is demanded (R2, None==all)",
    "runs that are explicitly rejected (polarised CC) make the state trivial; other exceptions are C16's business and are counted as blocked",
]
BUDGET = {"quick": 1500, "thorough": 7200}


def states(tier, seed):
    out = []
    ptos = [0, 1, 2] if tier == "quick" else [0, 1, 2, 3]
    q2s = [4.0, 30.0] if tier == "quick" else [2.0, 4.0, 30.0, 1e5]
    targets = ["proton", "isoscalar"] if tier == "quick" else ["proton", "isoscalar", "iron"]
    # R1/R2
    hs = HEAVY_SCHEMES if tier == "thorough" else ["ZM-VFNS", "FFNS3", "FFNS4", "FFN03", "FONLL-FFNS3", "FONLL-FFN04"]
    for kind, proc, pto, sc, tg, q2 in itertools.product(SF_KINDS, PROCS, [0, 1, 2, 3], hs, targets, q2s):
        if tier == "quick" and pto == 2 and (tg != "proton" or q2 != 30.0):
            continue
        if tier == "quick" and pto == 3 and (tg != "proton" or q2 != 30.0 or sc not in ("ZM-VFNS", "FFNS4")):
            continue
        if tier == "thorough" and pto == 3 and (tg == "iron" or q2 in (2.0,)):
            continue
        out.append({"rel": "R12", "kind": kind, "process": proc, "pto": pto, "scheme": sc, "target": tg, "Q2": q2})
    # DIS order different from the evolution order (the evolution order steers which asymptotic log towers exist)
    for kind, proc, sc, (pto, ptodis) in itertools.product(["F2", "FL", "F3", "g1"], ["NC", "CC"], ["FFNS3", "FFN03", "FONLL-FFN04", "FFN04"], [(2, 1), (1, 2), (0, 1), (2, 0)]):
        if proc == "CC" and kind == "g1":
            continue
        out.append({"rel": "R12", "kind": kind, "process": proc, "pto": pto, "ptodis": ptodis, "scheme": sc, "target": "proton", "Q2": 30.0})
        if sc.startswith("FONLL"):
            out.append({"rel": "R3", "kind": kind, "process": proc, "pto": pto, "ptodis": ptodis, "scheme": sc, "heavyness": "total", "target": "proton", "Q2": 30.0})
    # non-default beam / electroweak options (weights change, the partitions must not)
    for kind, sc, rl in itertools.product(["F2", "F3", "g4"], ["ZM-VFNS", "FFNS3", "FONLL-FFNS4"], ["R12", "R4"]):
        c = {"rel": rl, "kind": kind, "process": "NC", "pto": 1, "scheme": sc, "target": "iron", "Q2": 30.0, "obscard": {"PolarizationDIS": -0.6, "PropagatorCorrection": 0.2}, "projectile": "positron", "theory": {"SIN2TW": 0.4, "MZ": 30.0}}
        if rl == "R4":
            c["heavyness"] = "total"
        out.append(c)
    # target-mass corrections, non-canonical projectiles and cross sections: all linear in the structure functions, so every partition must survive them
    for (kind, proc, proj), sc, extra in itertools.product(
        [("F2", "NC", "electron"), ("F3", "CC", "neutrino"), ("g1", "NC", "electron"), ("F2", "CC", "antineutrino"), ("F3", "CC", "electron"), ("F3", "NC", "positron"), ("FL", "CC", "positron"),
         ("XSHERANC", "NC", "positron"), ("XSCHORUSCC", "CC", "antineutrino"), ("XSHERACC", "CC", "electron"), ("XSNUTEVNU", "CC", "neutrino"), ("g5", "NC", "electron")],
        ["FFNS3", "FFNS4", "FONLL-FFNS4", "ZM-VFNS"], [{}, {"tmc": 1}, {"tmc": 3, "target": "iron"}],
    ):
        isxs = kind.startswith("XS") or kind == "g5"
        if not extra and not isxs and proj == cards.CANONICAL_PROJECTILE[proc]:
            continue  # already in the main lattice
        c = dict({"rel": "R12", "kind": kind, "process": proc, "pto": 1, "scheme": sc, "target": "proton", "Q2": 30.0, "projectile": proj}, **extra)
        if isxs:
            c["y"] = 0.4
        out.append(c)
        if sc.startswith("FONLL"):
            out.append(dict(c, rel="R3", heavyness="total"))
        if proc == "NC" and sc in ("ZM-VFNS", "FFNS3") and not (extra.get("tmc") == 3):
            out.append(dict(c, rel="R4", heavyness="total"))
    # combinations of options (each harmless alone): polarised anti-lepton beam + nuclear target + TMC at PTO 2, in every relation
    for kind, sc in itertools.product(["F2", "F3", "g1", "FL"], ["FFNS3", "FONLL-FFNS4", "FONLL-FFN03", "ZM-VFNS"]):
        base = {"kind": kind, "process": "NC", "pto": 2, "scheme": sc, "target": "iron", "Q2": 30.0, "projectile": "positron", "obscard": {"PolarizationDIS": 0.7, "PropagatorCorrection": 0.05}, "tmc": 1 if kind != "FL" else 0}
        out.append(dict(base, rel="R12"))
        if sc.startswith("FONLL"):
            out.append(dict(base, rel="R3", heavyness="total"))
            out.append(dict(base, rel="R3", heavyness="charm", theory={"RenScaleVar": False, "FactScaleVar": False}))
        if sc in ("ZM-VFNS", "FFNS3"):
            out.append(dict(base, rel="R4", heavyness="total"))
    for kind, sc in itertools.product(["F2", "F3"], ["FFNS4", "FONLL-FFNS3"]):
        out.append({"rel": "R12", "kind": kind, "process": "CC", "pto": 2 if sc == "FFNS4" else 1, "scheme": sc, "target": "iron", "Q2": 30.0, "projectile": "antineutrino", "tmc": 3, "theory": {"RenScaleVar": False}})
    # R3
    fs = FONLL_SCHEMES if tier == "thorough" else ["FONLL-FFNS3", "FONLL-FFNS4", "FONLL-FFN03"]
    for kind, proc, pto, sc, hv, q2 in itertools.product(SF_KINDS, PROCS, ptos, fs, ["total", "charm", "bottom", "light"], q2s):
        if tier == "quick" and (pto == 2 and q2 != 30.0 or hv == "bottom" and sc.endswith("3")):
            continue
        if tier == "thorough" and pto == 3 and q2 != 30.0:
            continue
        out.append({"rel": "R3", "kind": kind, "process": proc, "pto": pto, "scheme": sc, "heavyness": hv, "target": "proton", "Q2": q2})
    # R4
    ps = ["ZM-VFNS", "FFNS3"] if tier == "quick" else ["ZM-VFNS", "FFNS3", "FFNS4", "FFN03", "FONLL-FFNS4"]
    for kind, proc, pto, sc, hv, q2 in itertools.product(SF_KINDS, ["EM", "NC"], [0, 1, 2, 3], ps, ["total", "light", "charm"], q2s):
        if tier == "quick" and (pto == 2 and q2 != 30.0):
            continue
        if tier == "quick" and pto == 3 and (q2 != 30.0 or sc != "ZM-VFNS" or hv == "charm"):
            continue
        if tier == "thorough" and pto == 3 and q2 not in (30.0, 1e5):
            continue
        out.append({"rel": "R4", "kind": kind, "process": proc, "pto": pto, "scheme": sc, "heavyness": hv, "target": "isoscalar" if q2 == 4.0 else "proton", "Q2": q2})
    return out


def _kins(q2, y=None):
    return [cards.kin(x, q2, y) for x in XS]


def _fp(cell, **kw):
    fp = {k: cell[k] for k in cell}
    fp.update(kw)
    return fp


def _result(viol, nontrivial, outcome, transitions, info=None):
    return {"violations": viol, "nontrivial": nontrivial, "outcome": outcome, "transitions": transitions, "info": info or {}}


def execute(cell):
    yrun.reset_memos()
    return {"R12": _r12, "R3": _r3, "R4": _r4}[cell["rel"]](cell)


def _mk_viol(cell, bad, relname, xi):
    k, what, val, where = bad[0]
    msg = f"{relname} violated for {cell} at x={XS[xi]}: order {k}: {what} ({val:.3e}); {len(bad)} key/part failures"
    fp = _fp(cell, cls="relation", relation=relname, order=str(k), what=what)
    return {"fp": fp, "fpkey": {"relation": relname, "kind": cell["kind"], "process": cell["process"], "scheme": cell["scheme"], "pto": cell["pto"], "order": str(k), "what": what}, "msg": msg, "data": {"x": XS[xi], "order": list(k), "delta": val, "index": where}}


def _r12(cell):
    kind = cell["kind"]
    names = {h: cards.obsname(kind, h) for h in ["total", "light", "charm", "bottom", "top"]}
    c = dict(cell)
    c["target"] = TARGETS[cell["target"]]
    out, status = rel.try_run(c, {n: _kins(cell["Q2"], cell.get("y")) for n in names.values()})
    if status != "ok":
        return _result([], False, status, 1, {"n_" + status.split(":")[0]: 1})
    fns, nfff = cards.SCHEMES[cell["scheme"]]
    viol = []
    nontrivial = False
    maxrel = 0.0
    nnf = 0
    for xi in range(len(XS)):
        T = {h: yrun.tensors(out[n][xi]) for h, n in names.items()}
        if fns == "ZM-VFNS":
            ok, why = rel.bit_identical(T["total"], T["light"])
            if not ok:
                viol.append({"fp": _fp(cell, cls="relation", relation="R2 total==light (ZM)"), "fpkey": {"relation": "R2", "kind": kind, "process": cell["process"], "pto": cell["pto"]}, "msg": f"R2 (ZM-VFNS total == light bit-identical) violated for {cell} at x={XS[xi]}: {why}"})
            nontrivial |= any(np.any(v[0] != 0) for v in T["total"].values())
        else:
            massive = [h for h, n in (("charm", 4), ("bottom", 5), ("top", 6)) if n > nfff]
            bad, st = rel.compare_sum(T["total"], [T["light"]] + [T[h] for h in massive], RTOL)
            maxrel = max(maxrel, st["maxrel"])
            nnf += st["n_nonfinite_both"]
            nontrivial |= st["nonzero"]
            if bad:
                viol.append(_mk_viol(cell, bad, f"R1 total = light + {'+'.join(massive)}", xi))
    return _result(viol[:1], nontrivial, digest([yrun.res_digest(out[names['total']][i]) for i in range(len(XS))]), 1, {"maxrel": maxrel, "n_nonfinite_both": nnf})


def _r3(cell):
    name = cards.obsname(cell["kind"], cell["heavyness"])
    outs = {}
    for part in ("full", "massless", "massive"):
        c = dict(cell)
        c["theory"] = dict(cell.get("theory", {}), FONLLParts=part)
        out, status = rel.try_run(c, {name: _kins(cell["Q2"], cell.get("y"))})
        if status != "ok":
            return _result([], False, status, 1, {"n_" + status.split(":")[0]: 1})
        outs[part] = out
    viol = []
    nontrivial = False
    maxrel = 0.0
    nnf = 0
    both = False
    for xi in range(len(XS)):
        T = {p: yrun.tensors(outs[p][name][xi]) for p in outs}
        bad, st = rel.compare_sum(T["full"], [T["massless"], T["massive"]], RTOL)
        maxrel = max(maxrel, st["maxrel"])
        nnf += st["n_nonfinite_both"]
        nz = lambda t: any(np.any(np.nan_to_num(v[0]) != 0) for v in t.values())
        both |= nz(T["massless"]) and nz(T["massive"])
        nontrivial |= st["nonzero"]
        if bad:
            viol.append(_mk_viol(cell, bad, "R3 full = massless + massive", xi))
    return _result(viol[:1], nontrivial and both, digest([yrun.res_digest(outs["full"][name][i]) for i in range(len(XS))]), 3, {"maxrel": maxrel, "n_nonfinite_both": nnf, "n_both_parts_nonzero": int(both)})


def _r4(cell):
    name = cards.obsname(cell["kind"], cell["heavyness"])
    outs = {}
    for ch in ["d", "u", "s", "c", "b", "t", None, "all"]:
        c = dict(cell)
        c["obscard"] = dict(cell.get("obscard", {}), NCPositivityCharge=ch)
        out, status = rel.try_run(c, {name: _kins(cell["Q2"], cell.get("y"))})
        if status != "ok":
            return _result([], False, status, 1, {"n_" + status.split(":")[0]: 1})
        outs[ch] = out
    viol = []
    nontrivial = False
    maxrel = 0.0
    nnf = 0
    ncontrib = 0
    for xi in range(len(XS)):
        T = {p: yrun.tensors(outs[p][name][xi]) for p in outs}
        ok, why = rel.bit_identical(T[None], T["all"])
        if not ok:
            viol.append({"fp": _fp(cell, cls="relation", relation="R4 None == all"), "msg": f"R4 NCPositivityCharge None vs 'all' not bit-identical for {cell} at x={XS[xi]}: {why}"})
        terms = [T[q] for q in "duscbt"]
        ncontrib = max(ncontrib, sum(1 for t in terms if any(np.any(np.nan_to_num(v[0]) != 0) for v in t.values())))
        bad, st = rel.compare_sum(T[None], terms, RTOL)
        maxrel = max(maxrel, st["maxrel"])
        nnf += st["n_nonfinite_both"]
        nontrivial |= st["nonzero"]
        if bad:
            viol.append(_mk_viol(cell, bad, "R4 sum over quark charges = unrestricted", xi))
    return _result(viol[:1], nontrivial and ncontrib >= 2, digest([yrun.res_digest(outs[None][name][i]) for i in range(len(XS))]), 8, {"maxrel": maxrel, "n_nonfinite_both": nnf})


LEVEL_TEXT = (
    "Bounded-exhaustive relation checking: every base cell of the enumerated lattice (relation x kind x process x PTO x scheme x target x Q2 x 4 x-points) "
    "is executed on the real run_yadism for all members of the partition and the additivity identity is checked on every operator entry and every order key "
    "at 1e-12 relative to the sum of absolute terms (plus 1e-12 of the largest entry of the tensor, the rounding scale of the flavour contractions); ZM-VFNS total==light and None=='all' are demanded bit-for-bit."
    " A sub-lattice crosses R1-R4 with TMC, non-canonical beams and cross-section kinds."
)
LEVEL_NOTE = (
    "Trusted: numpy arithmetic. The partition demanded for NfFF>=4 is total = light + massive flavours (documented design of heavylight). Cells outside the lattice "
    "(other grids, kinematics, EW parameters) are not covered. Both-sided NaN at N3LO massive is delegated to the C16 known finding."
)
TECHNIQUE = "bounded-exhaustive enumeration of base cells; relation oracle between tuples of real runs (differential model checking)"
