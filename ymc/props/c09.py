"""C09 — heavy-quark production respects its kinematic threshold.

NC pair production: for Q2(1-x)/x <= 4 m2 (x >= x_thr = Q2/(Q2+4m2)) nothing is produced; integrands vanish for z > z_thr.
CC single heavy quark: evaluated at xi = x (1 + m2/Q2), zero for xi >= 1.
Reference: x_thr, z_thr and xi are computed independently (exact states where the threshold condition is exact in binary floating point).
Observed at three levels: kernel list (Combiner.collect_elems), integrands (regular parts), operator rows of the real run.
"""
import itertools
import math

import numpy as np

from .. import cards, rel, yrun
from ..engine import digest
from ..ref import ref_basis, ref_conv

HISTORY_SWEEP = True
ID = "C09"
MASSES = {"charm": 1.5, "bottom": 4.5}
EXACT = {("charm", 9.0): 0.5, ("charm", 3.0): 0.25, ("bottom", 81.0): 0.5, ("bottom", 27.0): 0.25}

RULE = (
    "NC states = (flavour m in {1.5,4.5}, Q2 in {3,9,27,81,900}, x variant around x_thr = Q2/(Q2+4m2): x_thr(1±1e-9), x_thr/2, (1+x_thr)/2, and exactly at / one ulp below / one ulp above for the "
    "(Q2,m) pairs where Q2(1-x)/x is exact in binary floating point, kind F2/FL/g1, observable h/total/light, process EM/NC, PTO 2); CC states = (flavour, Q2, x with xi = x(1+m2/Q2) in "
    "{1-1e-9, 1, 1+1e-9, 1/2, 0.9}, kind F2/FL/F3, PTO 1). Oracles: every massive NC kernel of the kernel list is empty at every order iff x >= x_thr; regular parts are exactly 0.0 beyond z_thr and "
    "non-zero below; operator rows of non-heavy partons of F_h are exactly 0.0 at/above threshold; CC kernels sit at the reference xi and the operator equals the reference convolution at xi, exactly 0 for xi >= 1-1e-10; "
    "non-trivial = the state is at/above threshold with a kernel that is non-empty below threshold, or below threshold with non-zero rows"
)
ASSUMPTIONS = [
    "scheme FFNS3 (charm, bottom massive), grid G6, masses 1.5 and 4.5 so that four (Q2,m) pairs give an exactly representable threshold condition",
    "mass reference scales Qmc/Qmb/Qmt equal to the masses, and for a sub-lattice lower, higher and absent (HQ=POLE: they must not move any threshold)",
    "PTO 2 for NC (the O(a_s^2) 'missing' non-singlet carries the only local term among the massive NC kernels); N3LO massive kernels are NaN on this tree (C16 known finding) and are not part of the lattice",
    "the intrinsic heavy-quark rows are not pair production and are excluded from the 'exactly zero' statement",
    "CC reference convolution as in C01 (ref_conv on ref_basis) but at the independently computed xi",
]
BUDGET = {"quick": 900, "thorough": 3600}


def _xthr(m, q2):
    return q2 / (q2 + 4.0 * m * m)


def _states_base(tier, seed):
    out = []
    q2s = [3.0, 9.0, 27.0, 81.0, 900.0]
    for hq, q2 in itertools.product(MASSES, q2s):
        m = MASSES[hq]
        xt = _xthr(m, q2)
        variants = [("thr-", xt * (1 - 1e-9)), ("thr+", xt * (1 + 1e-9)), ("below", xt / 2), ("above", (1 + xt) / 2)]
        if (hq, q2) in EXACT:
            xe = EXACT[(hq, q2)]
            variants += [("exact", xe), ("ulp-", math.nextafter(xe, 0.0)), ("ulp+", math.nextafter(xe, 1.0))]
        for (lab, x), kind, proc in itertools.product(variants, ["F2", "FL", "g1"], ["EM", "NC"]):
            if x < 1e-3 or x >= 1:
                continue
            if tier == "quick" and proc == "EM" and lab in ("below", "above") and kind != "F2":
                continue
            out.append({"t": "nc", "hq": hq, "Q2": q2, "variant": lab, "x": x, "kind": kind, "process": proc})
    for hq, q2 in itertools.product(MASSES, [3.0, 27.0, 900.0] if tier == "quick" else q2s):
        m = MASSES[hq]
        lam = 1.0 / (1.0 + m * m / q2)
        for lab, xi in (("xi=1-", 1 - 1e-9), ("xi=1", 1.0), ("xi=1+", 1 + 1e-9), ("xi=0.5", 0.5), ("xi=0.9", 0.9), ("xi=1-1e-11", 1 - 1e-11)):
            x = xi * lam
            if x < 1e-3 or x > 1:
                continue
            for kind, proj in itertools.product(["F2", "FL", "F3"], ["neutrino", "electron"]):
                if tier == "quick" and proj == "electron" and kind != "F3":
                    continue
                out.append({"t": "cc", "hq": hq, "Q2": q2, "variant": lab, "x": x, "kind": kind, "projectile": proj})
                # the same point through the *_total observable: charm, bottom and top kernels side by side in one kinematic point, each at its own xi
                if lab in ("xi=0.5", "xi=1+", "xi=1-") and proj == "neutrino" and kind != "FL":
                    out.append({"t": "cc", "hq": hq, "Q2": q2, "variant": lab, "x": x, "kind": kind, "projectile": proj, "obs": "total"})
    return out


def _v(st, what, msg):
    fp = dict(st, cls=what)
    return {"fp": fp, "fpkey": {"cls": what, "t": st["t"], "kind": st["kind"], "variant": st["variant"]}, "msg": msg}


QM = {  # reference scales of the heavy-quark masses: with pole masses they must not influence any threshold
    "lo": {"Qmc": 1.2, "Qmb": 4.0, "Qmt": 100.0},
    "hi": {"Qmc": 3.0, "Qmb": 9.0, "Qmt": 300.0},
    "del": {"Qmc": "__del__", "Qmb": "__del__", "Qmt": "__del__"},
}


def _theory(st=None):
    th = {"mc": 1.5, "mb": 4.5, "Qmc": 1.5, "Qmb": 4.5, "RenScaleVar": False, "FactScaleVar": False}
    if st is not None and st.get("qm"):
        th.update(QM[st["qm"]])
    return th


def _states_grids(seed):
    """CC slow-rescaling states on a linear and on a degree-5 grid."""
    out = []
    for g, hq, q2 in itertools.product(["L7", "D5"], MASSES, [3.0, 27.0, 900.0]):
        m = MASSES[hq]
        lam = 1.0 / (1.0 + m * m / q2)
        for lab, xi in (("xi=1-", 1 - 1e-9), ("xi=1+", 1 + 1e-9), ("xi=0.5", 0.5), ("xi=0.9", 0.9)):
            x = xi * lam
            if x < cards.GRIDS[g][0][0] * 1.01 or x > 1:
                continue
            for kind in ("F2", "F3"):
                out.append({"t": "cc", "hq": hq, "Q2": q2, "variant": lab, "x": x, "kind": kind, "projectile": "antineutrino", "grid": g})
    return out


def _states_qm(seed):
    """cards whose mass reference scales Qm? differ from the masses (or are absent): thresholds must follow the masses."""
    out = []
    for st in _states_base("thorough", seed):
        if st["t"] == "nc" and st["kind"] == "F2" and st["process"] == "NC" and st["variant"] in ("thr-", "thr+", "exact", "ulp-", "ulp+", "below"):
            out += [dict(st, qm=q) for q in QM]
        if st["t"] == "cc" and st["kind"] == "F2" and st["projectile"] == "neutrino" and st["variant"] in ("xi=1-", "xi=1+", "xi=0.5"):
            out += [dict(st, qm=q) for q in QM]
    return out


def states(tier, seed):
    """quick = the full base lattice; thorough = base lattice + the deep extension."""
    base = _states_base("thorough", seed) + _states_grids(seed) + _states_qm(seed)
    if tier == "quick":
        return base
    seen = {digest(s) for s in base}
    return base + [s for s in _states_deep(seed) if digest(s) not in seen]


def _states_deep(seed):
    """all six kinds, every threshold variant at every (flavour, Q2) incl. more Q2 with exact thresholds, Qm variants everywhere, CC on every grid of the alphabet."""
    out = []
    q2s = [3.0, 9.0, 27.0, 81.0, 243.0, 900.0, 8100.0]
    exact = dict(EXACT)
    exact.update({("charm", 27.0): 0.75, ("charm", 81.0): 0.9, ("bottom", 243.0): 0.75, ("bottom", 9.0): 0.1})
    for hq, q2 in itertools.product(MASSES, q2s):
        m = MASSES[hq]
        xt = _xthr(m, q2)
        variants = [("thr-", xt * (1 - 1e-9)), ("thr+", xt * (1 + 1e-9)), ("below", xt / 2), ("above", (1 + xt) / 2), ("thr-12", xt * (1 - 1e-12)), ("thr+12", xt * (1 + 1e-12))]
        if (hq, q2) in exact:
            xe = exact[(hq, q2)]
            from fractions import Fraction

            if Fraction(q2) * (1 - Fraction(xe)) / Fraction(xe) == 4 * Fraction(m) * Fraction(m):
                variants += [("exact", xe), ("ulp-", math.nextafter(xe, 0.0)), ("ulp+", math.nextafter(xe, 1.0))]
        for (lab, x), kind, proc in itertools.product(variants, ["F2", "FL", "g1", "gL", "g4", "F3"], ["EM", "NC"]):
            if x < 1e-3 or x >= 1 or (proc == "EM" and kind in ("F3", "gL", "g4")):
                continue
            for qm in (None, "lo", "hi", "del"):
                st = {"t": "nc", "hq": hq, "Q2": q2, "variant": lab, "x": x, "kind": kind, "process": proc}
                if qm:
                    if kind not in ("F2", "FL") or proc != "NC":
                        continue
                    st["qm"] = qm
                out.append(st)
    for g, hq, q2 in itertools.product(["G6", "L7", "D5", "G9", "G13", "G8", "D1", "U7", "UL6", "M4"], MASSES, [3.0, 27.0, 243.0, 900.0, 8100.0]):
        m = MASSES[hq]
        lam = 1.0 / (1.0 + m * m / q2)
        for lab, xi in (("xi=1-", 1 - 1e-9), ("xi=1", 1.0), ("xi=1+", 1 + 1e-9), ("xi=0.5", 0.5), ("xi=0.9", 0.9), ("xi=0.3", 0.3), ("xi=1-1e-11", 1 - 1e-11)):
            x = xi * lam
            if x < cards.GRIDS[g][0][0] * 1.01 or x > 1:
                continue
            for kind, proj in itertools.product(["F2", "FL", "F3"], ["neutrino", "antineutrino", "electron", "positron"]):
                out.append({"t": "cc", "hq": hq, "Q2": q2, "variant": lab, "x": x, "kind": kind, "projectile": proj, "grid": g})
    return out


def execute(st):
    yrun.reset_memos()
    return _nc(st) if st["t"] == "nc" else _cc(st)


def _nc(st):
    try:
        return _nc_inner(st)
    except (ValueError, NotImplementedError) as e:
        if yrun.raised_explicitly(e) and "LeProHQ" in (yrun.innermost_site(e.__traceback__) or ""):
            # explicit rejection by the massive library while a kernel is built or evaluated (LeProHQ: the high-virtuality limit of x2g1 at O(a_s^2) is not known)
            return {"violations": [], "nontrivial": False, "outcome": "rejected:" + type(e).__name__, "transitions": 1, "info": {"n_rejected": 1}}
        raise


def _nc_inner(st):
    import yadism.coefficient_functions as cf
    from yadism.coefficient_functions.heavy import partonic_channel as hpc

    m = MASSES[st["hq"]]
    q2, x = st["Q2"], st["x"]
    # reference threshold decision in exact arithmetic where it matters
    from fractions import Fraction

    shat = Fraction(q2) * (1 - Fraction(x)) / Fraction(x)
    above_thr = shat <= 4 * Fraction(m) * Fraction(m)  # "at or below the pair threshold"
    if st["variant"] in ("thr-", "thr+", "below", "above"):
        above_thr = st["variant"] in ("thr+", "above")
    ihq = {"charm": 4, "bottom": 5}[st["hq"]]
    names = [cards.obsname(st["kind"], h) for h in (st["hq"], "total", "light")]
    cell = {"scheme": "FFNS3", "process": st["process"], "pto": 2, "theory": _theory(st)}
    try:
        r = yrun.runner(cell, {n: [cards.kin(x, q2)] for n in names})
    except Exception as e:
        info = yrun.classify_exception(e)
        return {"violations": [_v(st, "run-failed", f"runner construction failed: {info['exc']}: {info['excmsg']}")], "nontrivial": True, "outcome": "failed", "transitions": 1}
    viol = []
    nontriv = False
    nker = 0
    zt = _xthr(m, q2)
    for n in names:
        esf = r.observables[n].elements[0]
        elems = cf.Combiner(esf).collect_elems()
        for cfe in elems:
            co = cfe.coeff
            if not isinstance(co, hpc.NeutralCurrentBase) or abs(float(co.m2hq) - m * m) > 1e-12:
                continue
            cname = type(co).__name__
            for o in (0, 1, 2):
                rsl = co[o]()
                empty = rsl is None or (rsl.reg is None and rsl.sing is None and rsl.loc is None)
                nker += 1
                if above_thr and not empty:
                    viol.append(_v(st, "kernel-not-empty", f"{n} {st['process']}: kernel {cname} order {o} is not empty at x={x!r} ({st['variant']}), Q2={q2}, m={m}: Q2(1-x)/x <= 4m2 so pair production must contribute nothing (reg={rsl.reg is not None}, sing={rsl.sing is not None}, loc={rsl.loc is not None})"))
                if not above_thr and not empty:
                    nontriv = True
                    # integrand level
                    if rsl.reg is not None:
                        for z in (zt * (1 + 1e-9), (1 + zt) / 2, 0.999):
                            if z < 1 and rsl.reg(z, rsl.args["reg"]) != 0.0:
                                viol.append(_v(st, "integrand-beyond-threshold", f"{n}: {cname} order {o}: regular part at z={z} (> z_thr={zt}) = {rsl.reg(z, rsl.args['reg'])!r}, must be exactly 0"))
                                break
                        zin = max(zt / 2, x)
                        if zin < zt * (1 - 1e-6) and rsl.reg(zin, rsl.args["reg"]) == 0.0 and cname != "NonSinglet":
                            viol.append(_v(st, "integrand-vanishes-below", f"{n}: {cname} order {o}: regular part vanishes at z={zin} below z_thr={zt}"))
    if nker == 0:
        viol.append(_v(st, "kernel-mass", f"{names[0]} {st['process']} Q2={q2}: no massive NC kernel of the kernel list carries the card's squared mass m2={m*m} (Qm variant {st.get('qm')})"))
    # operator level
    try:
        out = r.get_result()
    except Exception as e:
        info = yrun.classify_exception(e)
        if isinstance(e, (ValueError, NotImplementedError)) and yrun.raised_explicitly(e):
            # explicit rejection (LeProHQ: the high-virtuality limit of x2g1 at O(a_s^2) is not known): nothing to observe at operator level
            return {"violations": viol, "nontrivial": False, "outcome": "rejected:" + info["exc"], "transitions": 1 + nker, "info": {"n_rejected": 1}}
        return {"violations": viol + [_v(st, "run-failed", f"get_result failed: {info['exc']} at {info['site']}: {info['excmsg']}")], "nontrivial": True, "outcome": "failed", "transitions": 1}
    T = yrun.tensors(out[names[0]][0])
    light_rows = [yrun.PIDX[p] for p in yrun.PIDS if p == 21 or (p != 22 and abs(p) <= 3)]
    for o in (1, 2):
        v = T[(o, 0, 0, 0)][0][light_rows]
        if above_thr and np.any(v != 0.0):
            viol.append(_v(st, "operator-rows-nonzero", f"{names[0]} {st['process']} x={x!r} ({st['variant']}) Q2={q2}: order {o} rows of gluon/light quarks are not exactly 0 at/above the pair threshold (max {np.max(np.abs(v)):.3e})"))
        if not above_thr and np.any(v != 0.0):
            nontriv = True
    # light: at/above threshold the result must equal the one with that heavy quark decoupled (missing channel off)
    if above_thr:
        th = dict(_theory(st))
        th["mc" if st["hq"] == "charm" else "mb"] = 1e4
        c2 = dict(cell, theory=th)
        out2, s2 = rel.try_run(c2, {names[2]: [cards.kin(x, q2)]})
        if s2 == "ok":
            ok, why = rel.bit_identical(yrun.tensors(out[names[2]][0]), yrun.tensors(out2[names[2]][0]))
            if not ok:
                viol.append(_v(st, "light-sees-heavy-at-threshold", f"{names[2]} {st['process']} x={x!r} ({st['variant']}) Q2={q2}: differs from the run with {st['hq']} decoupled (m=1e4) although the pair threshold is closed: {why}"))
        nontriv = True
    seen, uv = set(), []
    for v_ in viol:
        k = digest(v_["fpkey"])
        if k not in seen:
            seen.add(k)
            uv.append(v_)
    return {"violations": uv[:3], "nontrivial": nontriv, "outcome": digest([above_thr, yrun.out_digest(out)]), "transitions": 1 + nker, "sub": 1}


def _cc(st):
    import yadism.coefficient_functions as cf
    from yadism.coefficient_functions.heavy import partonic_channel as hpc

    m = MASSES[st["hq"]]
    q2, x = st["Q2"], st["x"]
    xi_ref = x * (1.0 + m * m / q2)
    name = cards.obsname(st["kind"], st.get("obs", st["hq"]))
    cell = {"scheme": "FFNS3", "process": "CC", "projectile": st["projectile"], "pto": 1, "theory": _theory(st), "grid": st.get("grid", "G6")}
    try:
        r = yrun.runner(cell, {name: [cards.kin(x, q2)]})
        esf = r.observables[name].elements[0]
        elems = cf.Combiner(esf).collect_elems()
        res = esf.get_result()
    except Exception as e:
        info = yrun.classify_exception(e)
        return {"violations": [_v(st, "run-failed", f"{name} CC failed: {info['exc']} at {info['site']}: {info['excmsg']}")], "nontrivial": True, "outcome": "failed", "transitions": 1}
    viol = []
    basis = ref_basis.RefBasis(*cards.grid(st.get("grid", "G6")))
    n = basis.n
    pred = {o: np.zeros((14, n)) for o in (0, 1)}
    scale = {o: np.zeros((14, n)) for o in (0, 1)}
    perr = {o: np.zeros((14, n)) for o in (0, 1)}
    nheavy = 0
    for cfe in elems:
        co = cfe.coeff
        heavy = isinstance(co, hpc.ChargedCurrentBase) and abs(float(co.labda) - 1.0 / (1.0 + m * m / q2)) < 1e-12
        xc = float(co.convolution_point())
        if heavy:
            nheavy += 1
            if abs(xc - xi_ref) > 4e-16 * xi_ref:
                viol.append(_v(st, "convolution-point", f"{name} CC: kernel {type(co).__name__} is evaluated at {xc!r}, slow-rescaling variable x(1+m2/Q2) = {xi_ref!r}"))
            xc = xi_ref
        w = np.array([cfe.partons.get(pid, 0.0) for pid in yrun.PIDS], dtype=float)
        for o in (0, 1):
            if not cfe.has_order(o):
                continue
            rsl = co[o]()
            if rsl is None:
                continue
            if not (0 < xc < 1 - ref_conv.EPS_BORDER):
                continue
            delta = float(rsl.loc(0.0, rsl.args["loc"])) if rsl.loc is not None else 0.0
            for j in range(n):
                sup = basis.support(j)
                if xc >= sup[1]:
                    continue
                v, e = ref_conv.convolve(rsl.reg, rsl.args["reg"], rsl.sing, rsl.args["sing"], delta, lambda y, j=j: basis.p(j, y), xc, sup, basis.x)
                pred[o][:, j] += w * xc * v
                scale[o][:, j] += np.abs(w) * xc * abs(v)
                perr[o][:, j] += np.abs(w) * xc * e
    if nheavy == 0:
        viol.append(_v(st, "cc-kernel-mass", f"{name} CC Q2={q2}: no massive CC kernel carries the card's rescaling factor 1/(1+m2/Q2) with m={m} (Qm variant {st.get('qm')})"))
    T = yrun.tensors(res)
    nonzero = False
    worst = 0.0
    for o in (0, 1):
        val, err = T[(o, 0, 0, 0)]
        if xi_ref >= 1 - 1e-10 and st.get("obs") != "total":
            # only the intrinsic rows could survive; non-heavy partons rows must vanish exactly
            rows = [yrun.PIDX[p] for p in yrun.PIDS if p == 21 or (p != 22 and abs(p) <= 3)]
            if np.any(val[rows] != 0.0):
                viol.append(_v(st, "cc-nonzero-beyond-xi1", f"{name} CC {st['projectile']} x={x!r} Q2={q2}: xi = {xi_ref!r} >= 1-1e-10 but order {o} rows of light partons are non-zero (max {np.max(np.abs(val[rows])):.3e})"))
            continue
        sc = scale[o] + np.abs(val)
        tol = {0: 1e-12, 1: 5e-7}[o] * (sc + sc.max()) + 20 * (err + perr[o]) + 1e-300
        d = np.abs(val - pred[o])
        if np.any(val != 0):
            nonzero = True
        if sc.max() > 0:
            worst = max(worst, float((d / (sc + sc.max())).max()))
        if np.any(d > tol):
            idx = np.unravel_index(np.argmax(d - tol), d.shape)
            viol.append(_v(st, "cc-operator", f"{name} CC {st['projectile']} x={x!r} Q2={q2} (xi={xi_ref:.12g}): order {o} operator[pid {yrun.PIDS[idx[0]]}, j={idx[1]}] = {val[idx]:.10g}, reference convolution at xi gives {pred[o][idx]:.10g}"))
    return {"violations": viol[:3], "nontrivial": (nonzero or xi_ref >= 1 - 1e-10) and nheavy > 0, "outcome": yrun.res_digest(res), "transitions": 1 + len(elems), "info": {"maxrel_cc": worst}}


LEVEL_TEXT = (
    "Bounded-exhaustive model checking of the threshold logic: every state of the lattice (flavour x Q2 x x-variant incl. exactly at, one ulp below and one ulp above the pair threshold where the "
    "condition is exact in binary floating point, and 1e-9 on either side elsewhere; kind x process x observable) is executed on the real code and observed at three levels - kernel list "
    "(each massive NC kernel empty at every order iff the threshold is closed, incl. the local term of the O(a_s^2) non-singlet), integrand (regular parts exactly 0.0 beyond the partonic threshold), "
    "operator (rows of non-heavy partons exactly 0.0; light result identical to the run with the quark decoupled). For CC the reference computes xi = x(1+m2/Q2) itself, demands that kernels sit there, "
    "that the operator equals the reference convolution at xi and vanishes for xi >= 1."
    " Cards whose mass reference scales Qm differ from the masses (or are absent) are part of the lattice, and some kernel of the list must carry the card's mass / rescaling factor."
)
LEVEL_NOTE = "Trusted: fractions.Fraction for the exact threshold decision, ref_conv/ref_basis for the CC operator. Masses other than 1.5/4.5, other grids and N3LO are not covered."
TECHNIQUE = "bounded-exhaustive enumeration of boundary states (exact / ulp / 1e-9 neighbours of kinematic thresholds) with an independent threshold reference at kernel, integrand and operator level"
