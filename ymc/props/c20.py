"""C20 — the runner leaves its inputs untouched and echoes them in the output.

HistoryExplorer: all sequences (up to a length) of operations {update, Runner, Runner+get_result, run_yadism, update∘update}
applied to the SAME theory / observables dict objects, for every FNS x target spelling x card flavour; after every
transition the caller's dicts are compared with a deep, type- and identity-aware snapshot.
"""
import copy
import itertools

import numpy as np

from .. import cards, yrun
from ..engine import digest

ID = "C20"
OPS = ["update", "runner", "result", "run", "update2"]
FNS = [("ZM-VFNS", 3), ("FFNS", 3), ("FFNS", 4), ("FFN0", 3), ("FONLL-FFNS", 4), ("FONLL-FFN0", 3), ("FFNS", 5)]
TARGETS = {"name": "iron", "dict": {"Z": 1.0, "A": 2.0}, "proton": "proton"}
PROJ_PID = {"electron": 11, "positron": -11, "neutrino": 12, "antineutrino": -12}
FLAVOR_PIDS = [22, -6, -5, -4, -3, -2, -1, 21, 1, 2, 3, 4, 5, 6]

RULE = (
    "states = (FNS x NfFF, target spelling, card flavour legacy/modern, operation sequence of length <= L over {update, Runner, Runner+get_result, run_yadism, update(update)}) applied to the same dict objects; "
    "after every operation: caller's theory and observables dicts (recursively: values, types, order and identity of nested lists/dicts/arrays) equal the snapshot taken before the first operation; "
    "update is idempotent; no Output shares a mutable object with the caller's cards or with a later Output of the same runner (identity check + in-place edit of the returned cards); every Output echoes the given cards, the sorted unique grid, the 14 flavour-basis pids and the projectile code; two results from the same dicts are bit-identical; "
    "non-trivial = sequence length >= 2 or the FNS rewrites thresholds"
)
ASSUMPTIONS = [
    "cards: PTO 0, grid G6 given unsorted (legacy flavour: numpy array; modern flavour: list), kinematics lists with 3 points NOT ordered in Q2 and one repeated point, cross-section and structure-function observables",
    "legacy flavour: keys alphaqed, QED present, PTODIS / FONLLParts / RenScaleVar / FactScaleVar absent, TargetDIS spelled per axis; modern flavour: all keys explicit",
    "sequence length <= 2 for all cells, = 3 for a sub-lattice (quick) / all cells (thorough)",
    "unusual card values (TMC with heavy target, PTO 1 with xiR/xiF != 1, PTODIS != PTO, non-default EW parameters + propagator correction + polarisation, kThr/Qm/masses changed, FONLLParts/DAMP, NCPositivityCharge + degree 1, scale variations off, numpy-scalar kinematics, a minimal card without the keys that have documented fall-backs - MZ, SIN2TW): every option x two schemes x both card flavours x all sequences of length <= 2",
]
BUDGET = {"quick": 900, "thorough": 3600}


OPTS = {
    # unusual card values: every branch of the input handling that they switch on must leave the caller's dicts alone as well
    "tmc": ({"TMC": 1, "MP": 1.5}, {}),
    "pto1": ({"PTO": 1, "XIR": 2.0, "XIF": 0.5}, {}),
    "ptodis": ({"PTO": 1, "PTODIS": 0}, {}),
    "ew": ({"MZ": 80.0, "SIN2TW": 0.3, "CKM": "0.9 0.3 0.1 0.3 0.9 0.2 0.1 0.2 0.95"}, {"PropagatorCorrection": 0.1, "PolarizationDIS": -0.5}),
    "thr": ({"kcThr": 2.0, "kbThr": 0.8, "Qmc": 3.0, "Qmb": 4.0, "mc": 1.3}, {}),
    "fonllparts": ({"FONLLParts": "massless", "DAMP": 1}, {}),
    "positivity": ({}, {"NCPositivityCharge": "up", "interpolation_polynomial_degree": 1}),
    "nosv": ({"RenScaleVar": False, "FactScaleVar": False, "PTO": 1}, {}),
    "npfloat": ({}, {"__npkin__": True}),
    "posall": ({}, {"NCPositivityCharge": "all"}),
    "posnone_pol": ({}, {"NCPositivityCharge": None, "PolarizationDIS": 0.3, "PropagatorCorrection": 0.0}),
    # every key the library has a documented fall-back for is ABSENT from the caller's cards (MZ, SIN2TW; MW and ProjectileDIS have one in CouplingConstants too, but the runner itself requires those keys): filling a default in must not write into them
    "minimal": ({"MZ": "__del__", "SIN2TW": "__del__"}, {}),
}


def _cards(fns, nfff, tkey, flavour, proj, opt=None):
    t, o = _cards0(fns, nfff, tkey, flavour, proj)
    if opt:
        dt, do = OPTS[opt]
        if flavour == "modern" and "PTO" in dt:
            t["order"] = (dt["PTO"] + 1, 0)
            if "PTODIS" not in dt:
                t["PTODIS"] = dt["PTO"]
        t.update(copy.deepcopy(dt))
        do = dict(do)
        if do.pop("__npkin__", False):  # kinematics given as numpy scalars (cards built from arrays)
            for name, kins in o["observables"].items():
                for k in kins:
                    for kk in list(k):
                        k[kk] = np.float64(k[kk])
        o.update(copy.deepcopy(do))
        for card in (t, o):
            for k in [k for k, v in card.items() if isinstance(v, str) and v == "__del__"]:
                del card[k]
    return t, o


def _cards0(fns, nfff, tkey, flavour, proj):
    t = copy.deepcopy(cards.BASE_THEORY)
    t["FNS"], t["NfFF"], t["PTO"] = fns, nfff, 0
    o = copy.deepcopy(cards.BASE_OBS)
    g = [0.3, 1e-3, 1.0, 1e-2, 0.6, 0.1]  # unsorted on purpose
    o["prDIS"] = "NC" if proj in ("electron", "positron") else "CC"
    o["ProjectileDIS"] = proj
    o["TargetDIS"] = copy.deepcopy(TARGETS[tkey])
    kin = [{"x": 0.3, "Q2": 90.0}, {"x": 0.05, "Q2": 4.0}, {"x": 0.3, "Q2": 30.0}, {"x": 0.05, "Q2": 4.0}]
    o["observables"] = {
        "F2_total": copy.deepcopy(kin),
        "XSHERANC_light": [{"x": 0.1, "Q2": 50.0, "y": 0.3}, {"x": 0.2, "Q2": 5.0, "y": 0.9}],
        "F3_charm": [],
    }
    if flavour == "legacy":
        o["interpolation_xgrid"] = np.array(g)
        for k in ("PTODIS", "FONLLParts", "RenScaleVar", "FactScaleVar"):
            t.pop(k, None)
    else:
        o["interpolation_xgrid"] = list(g)
        t["PTODIS"] = 0
        t.pop("alphaqed")
        t.pop("QED")
        t["alphaem"] = 0.007496252
        t["order"] = (1, 0)
    return t, o


def _snap(o, path="$"):
    """deep snapshot: structure with types, values and object identities of containers."""
    if isinstance(o, dict):
        return ("dict", id(o), [(k, _snap(v, f"{path}.{k}")) for k, v in o.items()])
    if isinstance(o, (list, tuple)):
        return (type(o).__name__, id(o), [_snap(v, f"{path}[{i}]") for i, v in enumerate(o)])
    if isinstance(o, np.ndarray):
        return ("ndarray", id(o), str(o.dtype), o.shape, o.tobytes())
    return (type(o).__name__, repr(o))


def _diff(a, b, path="$"):
    if a[0] != b[0]:
        return f"{path}: type {a[0]} -> {b[0]}"
    if a[0] == "dict":
        if a[1] != b[1]:
            return f"{path}: dict object replaced"
        ka, kb = [k for k, _ in a[2]], [k for k, _ in b[2]]
        if ka != kb:
            return f"{path}: keys changed {sorted(set(ka) ^ set(kb)) or 'order'}"
        for (k, va), (_, vb) in zip(a[2], b[2]):
            d = _diff(va, vb, f"{path}.{k}")
            if d:
                return d
        return None
    if a[0] in ("list", "tuple"):
        if a[1] != b[1]:
            return f"{path}: {a[0]} object replaced"
        if len(a[2]) != len(b[2]):
            return f"{path}: length {len(a[2])} -> {len(b[2])}"
        for i, (va, vb) in enumerate(zip(a[2], b[2])):
            d = _diff(va, vb, f"{path}[{i}]")
            if d:
                return d
        return None
    if a != b:
        return f"{path}: {a[1:] if len(repr(a)) < 80 else a[0]} -> {b[1:] if len(repr(b)) < 80 else b[0]}"
    return None


def _norm(o):
    if isinstance(o, dict):
        return {str(k): _norm(v) for k, v in o.items()}
    if isinstance(o, (list, tuple)):
        return [_norm(v) for v in o]
    if isinstance(o, np.ndarray):
        return _norm(o.tolist())
    if isinstance(o, np.generic):
        return o.item()
    return o


def _containers(o, acc=None):
    """ids of every mutable container reachable from o."""
    if acc is None:
        acc = {}
    if isinstance(o, dict):
        acc[id(o)] = o
        for v in o.values():
            _containers(v, acc)
    elif isinstance(o, (list, tuple)):
        if isinstance(o, list):
            acc[id(o)] = o
        for v in o:
            _containers(v, acc)
    elif isinstance(o, np.ndarray):
        acc[id(o)] = o
    return acc


def _alias_path(o, ids, path="$"):
    """first path inside o that is one of the objects `ids` (shared mutable object), else None."""
    if isinstance(o, (dict, list, np.ndarray)) and id(o) in ids:
        return path
    if isinstance(o, dict):
        for k, v in o.items():
            r = _alias_path(v, ids, f"{path}.{k}")
            if r:
                return r
    elif isinstance(o, (list, tuple)):
        for i, v in enumerate(o):
            r = _alias_path(v, ids, f"{path}[{i}]")
            if r:
                return r
    return None


def _scribble(out):
    """the caller annotates / edits the cards recorded in an Output it owns (in place, at every nesting level)."""
    for card in (out.theory, out.observables):
        if not isinstance(card, dict):
            continue
        stack = [card]
        seen = set()
        while stack:
            c = stack.pop()
            if id(c) in seen:
                continue
            seen.add(id(c))
            if isinstance(c, dict):
                stack.extend(v for v in c.values() if isinstance(v, (dict, list)))
                c["__annotation__"] = "edited by the owner of the Output"
            elif isinstance(c, list):
                stack.extend(v for v in c if isinstance(v, (dict, list)))
                c.append("__annotation__")


def _states_base(tier, seed):
    out = []
    for (fns, nf), tkey, flavour in itertools.product(FNS, TARGETS, ["legacy", "modern"]):
        proj = {"name": "neutrino", "dict": "positron", "proton": "electron"}[tkey]
        maxlen = 3 if (tier == "thorough" or (fns, nf) in (("ZM-VFNS", 3), ("FONLL-FFNS", 4), ("FFN0", 3))) and (tier == "thorough" or flavour == "legacy" or tkey == "name") else 2
        for n in range(1, maxlen + 1):
            for seq in itertools.product(OPS, repeat=n):
                if n == 3 and tier == "quick" and sum(1 for s in seq if s in ("result", "run")) > 1:
                    continue
                out.append({"fns": fns, "nfff": nf, "target": tkey, "flavour": flavour, "projectile": proj, "seq": list(seq)})
    # unusual card values (every option x card flavour x every sequence of length <= 2) on two schemes
    # every option is crossed with every target spelling (a combination of two card options can take a path neither takes alone)
    for opt, (fns, nf), flavour, tkey in itertools.product(OPTS, [("ZM-VFNS", 3), ("FONLL-FFNS", 4)], ["legacy", "modern"], list(TARGETS)):
        proj = {"name": "antineutrino", "dict": "positron", "proton": "electron"}[tkey]
        for n in (1, 2):
            for seq in itertools.product(OPS, repeat=n):
                out.append({"fns": fns, "nfff": nf, "target": tkey, "flavour": flavour, "projectile": proj, "seq": list(seq), "opt": opt})
    return out


def _v(st, what, msg):
    fp = dict(st, cls=what)
    fp["seq"] = "-".join(st["seq"])
    return {"fp": fp, "fpkey": {"cls": what, "fns": st["fns"], "flavour": st["flavour"], "target": st["target"]}, "msg": msg}


def _check_output(st, out, t0n, o0n, o):
    probs = []
    if _norm(out.theory) != t0n:
        probs.append("Output.theory differs from the given theory card")
    if _norm(out.observables) != o0n:
        probs.append("Output.observables differs from the given observables card")
    g = sorted(set(np.asarray(o["interpolation_xgrid"]).tolist()))
    if _norm(out["xgrid"]["grid"]) != g:
        probs.append(f"xgrid.grid {_norm(out['xgrid']['grid'])} is not the sorted unique card grid {g}")
    if bool(out["xgrid"]["log"]) != bool(o["interpolation_is_log"]) or int(out["polynomial_degree"]) != int(o["interpolation_polynomial_degree"]) or bool(out["is_log"]) != bool(o["interpolation_is_log"]):
        probs.append("interpolation metadata (log / degree) differs from the card")
    if _norm(out["pids"]) != FLAVOR_PIDS:
        probs.append(f"pids {_norm(out['pids'])} are not the flavour-basis pids")
    proj = o.get("ProjectileDIS", "electron")  # documented fall-back when the card has no projectile
    if out["projectilePID"] != PROJ_PID[proj]:
        probs.append(f"projectilePID {out['projectilePID']} for {proj}")
    for name, kins in o["observables"].items():
        if len(out[name]) != len(kins):
            probs.append(f"{name}: {len(out[name])} results for {len(kins)} points")
            continue
        for r, k in zip(out[name], kins):
            if float(r.x) != k["x"] or float(r.Q2) != k["Q2"] or ("y" in k and float(r.y) != k["y"]):
                probs.append(f"{name}: result kinematics ({r.x},{r.Q2}) do not follow the requested order {k}")
                break
    return probs


def states(tier, seed):
    """quick = the full base lattice; thorough = base lattice + the deep extension."""
    base = _states_base("thorough", seed)
    if tier == "quick":
        return base
    seen = {digest(s) for s in base}
    return base + [s for s in _states_deep(seed) if digest(s) not in seen]


def _states_deep(seed):
    out = []
    for (fns, nf), tkey, flavour in itertools.product([("ZM-VFNS", 3), ("FONLL-FFNS", 4)], ["name", "dict"], ["legacy", "modern"]):
        proj = {"name": "neutrino", "dict": "positron", "proton": "electron"}[tkey]
        for seq in itertools.product(OPS, repeat=4):
            if sum(1 for s in seq if s in ("result", "run")) > 2:
                continue
            out.append({"fns": fns, "nfff": nf, "target": tkey, "flavour": flavour, "projectile": proj, "seq": list(seq)})
    return out


def execute(st):
    import yadism
    from yadism.input import compatibility

    yrun.reset_memos()
    t, o = _cards(st["fns"], st["nfff"], st["target"], st["flavour"], st["projectile"], st.get("opt"))
    snap_t, snap_o = _snap(t), _snap(o)
    t0n, o0n = _norm(t), _norm(o)
    yrun.log_cards(t, o)  # read-only; after the snapshots
    viol = []
    digs = []
    ntr = 0
    for i, op in enumerate(st["seq"]):
        out = None
        try:
            if op == "update":
                nt, no = compatibility.update(t, o)
            elif op == "update2":
                nt, no = compatibility.update(t, o)
                nt2, no2 = compatibility.update(nt, no)
                if _norm(nt2) != _norm(nt) or _norm(no2) != _norm(no):
                    bad = [k for k in set(nt) | set(nt2) if _norm(nt.get(k)) != _norm(nt2.get(k))] + [k for k in set(no) | set(no2) if _norm(no.get(k)) != _norm(no2.get(k))]
                    viol.append(_v(st, "update-not-idempotent", f"update(update(t,o)) != update(t,o) for FNS={st['fns']} NfFF={st['nfff']} ({st['flavour']} card): keys {sorted(bad)[:6]}"))
            elif op == "runner":
                yadism.Runner(t, o)
            elif op == "result":
                rn = yadism.Runner(t, o)
                out = rn.get_result()
            elif op == "run":
                out = yadism.run_yadism(t, o)
        except Exception as e:
            info = yrun.classify_exception(e)
            viol.append(_v(st, "raises", f"operation {i} ({op}) in {st['seq']} raised {info['exc']} at {info['site']}: {info['excmsg']} (FNS={st['fns']}, {st['flavour']} card, target {st['target']})"))
            break
        ntr += 1
        d = _diff(snap_t, _snap(t), "theory") or _diff(snap_o, _snap(o), "observables")
        if d:
            viol.append(_v(st, "input-modified", f"after operation {i} ({op}) of {st['seq']} the caller's card was modified: {d} (FNS={st['fns']} NfFF={st['nfff']}, {st['flavour']} card, target {st['target']})"))
            break
        if out is not None:
            probs = _check_output(st, out, t0n, o0n, o)
            if probs:
                viol.append(_v(st, "output-echo", f"after operation {i} ({op}) of {st['seq']}: {'; '.join(probs[:3])} (FNS={st['fns']}, {st['flavour']} card)"))
                break
            digs.append(yrun.out_digest(out))
            # the Output is a record, not a view: it shares no mutable object with the caller's cards (else a later in-place edit of the cards by their
            # owner rewrites the record, and an annotation of the record rewrites the caller's cards), nor with a later Output of the same runner
            mine = _containers(t)
            _containers(o, mine)
            ap = _alias_path(out.theory, mine, "Output.theory") or _alias_path(out.observables, mine, "Output.observables") or _alias_path({k: v for k, v in out.items()}, mine, "Output")
            if ap:
                viol.append(_v(st, "output-aliases-input", f"after operation {i} ({op}) of {st['seq']}: {ap} IS an object of the caller's cards (shared, not recorded): editing either side in place rewrites the other (FNS={st['fns']}, {st['flavour']} card, target {st['target']})"))
                break
            _scribble(out)
            d = _diff(snap_t, _snap(t), "theory") or _diff(snap_o, _snap(o), "observables")
            if d:
                viol.append(_v(st, "input-modified", f"after operation {i} ({op}) of {st['seq']} editing the returned Output's cards in place modified the caller's card: {d} (FNS={st['fns']} NfFF={st['nfff']}, {st['flavour']} card, target {st['target']})"))
                break
            if op == "result":
                out_b = rn.get_result()
                ntr += 1
                probs = _check_output(st, out_b, t0n, o0n, o)
                if probs or yrun.out_digest(out_b) != digs[-1]:
                    viol.append(_v(st, "output-shared-between-results", f"after operation {i} ({op}) of {st['seq']}: a second get_result() of the same runner, after the first Output's cards were edited in place by its owner, gives {'; '.join(probs[:2]) or 'other values'} (FNS={st['fns']}, {st['flavour']} card)"))
                    break
    if len(set(digs)) > 1:
        viol.append(_v(st, "results-differ", f"results computed from the same dict objects differ within {st['seq']} (FNS={st['fns']})"))
    return {"violations": viol[:1], "nontrivial": len(st["seq"]) >= 2 or st["fns"] != "ZM-VFNS", "outcome": digest([digs, st["fns"], st["nfff"], st["target"], st["flavour"]]), "transitions": ntr}


LEVEL_TEXT = (
    "Explicit-state exploration of operation histories on the caller's card objects: for every FNS (threshold rewriting) x target spelling x card flavour (legacy/modern) every sequence of length <= 2 "
    "(<= 3 on a sub-lattice in quick, everywhere in thorough) over {update, Runner, Runner+get_result, run_yadism, update(update)} is executed on the same dict objects; after every transition the dicts "
    "are compared with a deep snapshot that records values, types, key order, element order and object identity of every nested container, outputs must echo the cards / grid / pids / projectile and "
    "follow the requested kinematic order, update must be idempotent, and repeated results must be bit-identical."
    " Nine unusual-option cards (TMC, PTO 1 with xiR/xiF != 1, PTODIS != PTO, EW parameters, thresholds, FONLLParts, positivity charge, scale variations off, numpy-scalar kinematics) are run through every sequence of length <= 2."
)
LEVEL_NOTE = "Trusted: Python id() for container identity (objects are kept alive during the history), numpy tobytes. Cards outside the two flavours and sequences longer than 3 are not covered."
TECHNIQUE = "explicit-state search over bounded operation histories on shared input objects with a deep-snapshot invariant after every transition"
