"""C01 — operator entries are x * (coefficient function (x) basis function).

LatticeExplorer with reference-model conformance: for every state (cell, grid, Q2, x) the real
EvaluatedStructureFunction.compute_local() is executed; the kernel list Combiner(esf).collect_elems()
(the observation point the property names) is convolved by the independent reference
(ref_conv on ref_basis, plus prescription from its definition, delta coefficient = loc(0+) only)
and compared entry-wise; second oracle: contraction with a globally exactly representable function
versus the direct convolution of that function (no basis at all).
"""
import itertools
import math

import numpy as np

from .. import cards, rel, yrun
from ..engine import digest
from ..ref import ref_basis, ref_conv

HISTORY_SWEEP = True
ID = "C01"
SF_KINDS = ["F2", "FL", "F3", "g1", "gL", "g4"]
PROCS = ["EM", "NC", "CC"]
RTOL = {0: 1e-12, 1: 5e-7, 2: 2e-6, 3: 2e-5}  # per perturbative order (measured maxima: 1e-14, 3.7e-8 (G9, x~1e-5), 2.5e-7, 3.6e-6)
ERRFAC = 20.0

RULE = (
    "states = (kind, heavyness, process, scheme, PTO, grid, Q2, x[, points computed before in the same runner]) over fully crossed named slices; x from the kinematic lattice K(G) "
    "(nodes, block mid-points, node(1±1e-9), xmin(1+1e-9), 0.999, 1); per state one real compute_local() and the reference convolution of every "
    "kernel x order x basis function; oracle |O-O_ref| <= rtol_k*scale + 20*(err_yadism+err_ref) on all (k,0,0,0) keys with rtol_k = 1e-12, 5e-7, 2e-6, 2e-5 for k = 0..3, plus the span check with a "
    "degree<=deg polynomial in ln x (or x); non-trivial = the operator has a non-zero entry from a kernel with a regular or singular part (not only a delta)"
)
ASSUMPTIONS = [
    "reg, sing and the delta coefficient loc(0+) of each kernel are taken from the kernel objects (their mutual consistency is C03, their content C04); parton weights are taken from the kernel list (C02, C12, C13)",
    "integration borders follow the documented convention [x(1+1e-10), zmax(1-1e-10)]; x = 1 must return exactly 0 (documented border)",
    "scale-variation keys are C05's business: runs use RenScaleVar=FactScaleVar=False, only (k,0,0,0) keys are compared",
    "slice N_abs_nlo: the O(a_s) operator of massless runs (ZM-VFNS, n_f = 3..6, EM / NC e-,e+ / CC nu, nubar, e-; also a polarised beam with non-default sin2thetaW, MZ and propagator correction) against a reference that shares nothing with the library - PDG weights (ref_ew) x textbook NLO coefficient functions (ref_nlo) (x) reference basis; the gluon row carries sum_pid w_pid / (2 n_f) times the gluon coefficient normalised with 2 n_f",
    "an options slice (PTO 1, G6) runs with non-canonical projectiles, polarised beam + propagator correction, nuclear / fractional targets, non-default MZ / sin2thetaW / CKM, NCPositivityCharge, non-default masses with Qm != m and kThr = 2",
    "per-order tolerance relative to the sum of absolute pieces (plus the largest entry of the tensor): 1e-12 (LO, pure interpolation), 5e-7 (NLO, analytic kernels), 2e-6 (NNLO) and 2e-5 (N3LO): 6-digit printed constants of the parametrised kernels times large logs near x->1; measured maxima 1e-14, 3.7e-8, 2.5e-7, 3.6e-6",
    "cells that C16 classifies as rejected or known-finding (polarised CC, N3LO massive NaN, g1 PTO3) are excluded by the same rules",
]
BUDGET = {"quick": 1500, "thorough": 10000}


def _xl(gridname, which):
    pts = cards.lattice_x(gridname)
    if which == "all":
        return pts + [("one", 1.0)]
    if which == "8":
        g = cards.GRIDS[gridname][0]
        lab = {"node": 2, "mid": 3}
        out = []
        nodes = [p for p in pts if p[0] == "node"]
        mids = [p for p in pts if p[0] == "mid"]
        out += [nodes[1], nodes[-1], mids[0], mids[len(mids) // 2], mids[-1]]
        out += [p for p in pts if p[0] in ("node+",)][:1]
        out += [p for p in pts if p[0] in ("xmin+", "near1")]
        return out
    if which == "4":
        nodes = [p for p in pts if p[0] == "node"]
        mids = [p for p in pts if p[0] == "mid"]
        return [nodes[2], mids[1], mids[-1], [p for p in pts if p[0] == "near1"][0]]
    if which == "3":
        nodes = [p for p in pts if p[0] == "node"]
        mids = [p for p in pts if p[0] == "mid"]
        return [nodes[len(nodes) // 2], mids[len(mids) // 2], mids[-1]]
    raise ValueError(which)


def _mk(kind, hv, proc, sc, pto, grid, q2, xlab, x, sl):
    return {"kind": kind, "heavyness": hv, "process": proc, "scheme": sc, "pto": pto, "grid": grid, "Q2": q2, "xlab": xlab, "x": x, "slice": sl}


def slices(tier):
    s = {}
    if tier == "quick":
        s["A_pto01_G6"] = [
            _mk(k, h, p, sc, pto, "G6", q2, xl, x, "A")
            for k, h, p, sc, pto, q2 in itertools.product(SF_KINDS, ["light", "total", "charm"], PROCS, ["ZM-VFNS", "FFNS3", "FFN03", "FONLL-FFN04"], [0, 1], [4.0, 30.0])
            for xl, x in _xl("G6", "all")
        ]
        s["A_pto01_G9L7"] = [
            _mk(k, h, p, sc, pto, g, 30.0, xl, x, "A2")
            for g in ("G9", "L7")
            for k, h, p, sc, pto in itertools.product(SF_KINDS, ["light", "total", "charm"], PROCS, ["ZM-VFNS", "FFNS3"], [0, 1])
            for xl, x in _xl(g, "4")
        ]
        s["B_pto2_G6"] = [
            _mk(k, h, p, sc, 2, "G6", 30.0, xl, x, "B2")
            for k, h, p, sc in itertools.product(SF_KINDS, ["light", "total"], PROCS, ["ZM-VFNS", "FFNS3"])
            for xl, x in _xl("G6", "3")
        ]
        s["B_pto3_light_G6"] = [
            _mk(k, "light", p, "ZM-VFNS", 3, "G6", 30.0, xl, x, "B3")
            for k, p in itertools.product(SF_KINDS, PROCS)
            for xl, x in _xl("G6", "3")
        ]
        s["B_pto2_light_G6"] = [
            _mk(k, "light", p, "ZM-VFNS", 2, "G6", 30.0, xl, x, "B")
            for k, p in itertools.product(SF_KINDS, PROCS)
            for xl, x in _xl("G6", "4")
        ]
        s["C_paths_L7"] = [
            _mk(k, h, p, sc, 1, "L7", 30.0, xl, x, "C")
            for k, h, p, sc in itertools.product(["F2", "FL", "F3", "g1"], ["total", "charm"], ["NC", "CC"], ["ZM-VFNS", "FFNS3", "FFN03", "FONLL-FFN04"])
            for xl, x in _xl("L7", "3")
        ]
        s["D_asy_G6"] = [
            _mk(k, h, p, sc, 1, "G6", 100.0, xl, x, "D")
            for k, h, p, sc in itertools.product(["F2", "FL", "F3"], ["total", "charm", "bottom"], ["NC", "CC"], ["FFN03", "FFN04", "FONLL-FFNS4"])
            for xl, x in _xl("G6", "3")
        ]
        # several points in ONE runner before the probed one (same x, other n_f regions): anything shared between kinematic points must not leak
        s["M_multi"] = [
            dict(_mk(k, "total", p, "ZM-VFNS", pto, "G6", q2, xl, x, "M"), before=before)
            for k, p, pto in itertools.product(SF_KINDS, PROCS, [1, 2])
            for (before, q2) in (([2.0, 10.0], 30.0), ([1e5, 30.0], 10.0))
            for xl, x in _xl("G6", "3")[:2]
        ]
        s["G_exotic"] = [
            _mk(k, h, p, sc, pto, g, 30.0, xl, x, "GX")
            for g in ("D1", "D5", "U7", "UL6", "M4")
            for k, h, p, sc, pto in itertools.product(SF_KINDS, ["total", "charm"], PROCS, ["ZM-VFNS", "FFNS3"], [0, 1])
            for xl, x in (_xl(g, "all") if g in ("U7", "M4") else _xl(g, "4"))
        ]
        # unusual card options: the reference takes weights and convolution points from the kernel list, so every option that only changes weights / masses / thresholds is covered by the same oracle
        OPTS = [
            {"projectile": "positron", "obscard": {"PolarizationDIS": -0.6, "PropagatorCorrection": 0.1}},
            {"projectile": "antineutrino", "target": "iron"},
            {"projectile": "electron", "target": {"Z": 0.3, "A": 1.0}, "theoryx": {"MZ": 50.0, "SIN2TW": 0.4, "CKM": "0.9 0.3 0.1 0.3 0.9 0.2 0.1 0.2 0.95"}},
            {"projectile": "neutrino", "obscard": {"NCPositivityCharge": "up"}, "theoryx": {"mc": 1.2, "mb": 4.0, "Qmc": 2.0, "kcThr": 2.0, "kbThr": 2.0}},
        ]
        s["O_options"] = [
            dict(_mk(k, h, p, sc, 1, "G6", 30.0, xl, x, "O"), **o)
            for o in OPTS
            for k, h, p, sc in itertools.product(["F2", "FL", "F3", "g1"], ["total", "charm"], PROCS, ["ZM-VFNS", "FFNS3", "FFN03"])
            for xl, x in _xl("G6", "3")
        ]
        # fully independent NLO reference for the massless sector: weights from ref_ew (PDG), coefficient functions from ref_nlo (textbook), convolution by
        # ref_conv on ref_basis - nothing is taken from the kernel list, so the assignment of coefficient functions AND weights to partons (incl. the gluon) is pinned
        s["N_abs_nlo"] = [
            dict(_mk(k, h, p, "ZM-VFNS", 1, "G6", q2, xl, x, "N"), abs=1, projectile=pr)
            for k, h, (p, pr), q2 in itertools.product(SF_KINDS, ["light", "total"], [("EM", "electron"), ("NC", "electron"), ("NC", "positron"), ("CC", "neutrino"), ("CC", "antineutrino"), ("CC", "electron")], [2.0, 10.0, 30.0, 1e5])
            for xl, x in _xl("G6", "3")
        ] + [
            dict(_mk(k, "total", "NC", "ZM-VFNS", 1, "G6", q2, xl, x, "N"), abs=1, projectile=pr, ew={"pol": -0.6, "prc": 0.1, "s2w": 0.4, "MZ": 50.0})
            for k, pr, q2 in itertools.product(SF_KINDS, ["electron", "positron", "neutrino"], [10.0, 1e5])
            for xl, x in _xl("G6", "3")[:2]
        ]
        # coupling linearity of the massive sector: the same observable under 10 electroweak configurations (EM; NC with all four beams, polarisation,
        # sin2thetaW, MZ, propagator correction) must be  VV_h(c) U_VV + AA_h(c) U_AA  (heavy-flavour observables: every row)  resp.  w_q(c) U_1 + S(c) U_2
        # (light observables: quark row q; gluon row S(c) U) with the PDG couplings of ref_ew - pins WHICH quark's couplings weight each parton's
        # coefficient function beyond LO; the O(a_s) gluon row of the EM run is also compared with the closed-form photon-gluon-fusion coefficient
        s["W_cpl"] = [
            dict(_mk(k, h, "NC", sc, pto, "G6", q2, xl, x, "W"), cpl=1)
            for k, (sc, h), pto, q2 in itertools.product(["F2", "FL"], [("FFNS3", "charm"), ("FFNS4", "bottom"), ("FFN03", "charm"), ("FFNS3", "light"), ("FONLL-FFNS4", "bottom")], [1, 2], [30.0])
            for xl, x in _xl("G6", "3")[:2]
        ]
        s["E_x1"] = [
            _mk(k, "total", p, sc, 1, "G6", 30.0, "one", 1.0, "E")
            for k, p, sc in itertools.product(SF_KINDS, PROCS, ["ZM-VFNS", "FFNS3"])
        ]
    else:
        schemes = ["ZM-VFNS", "FFNS3", "FFNS4", "FFN03", "FONLL-FFNS3", "FONLL-FFN04"]
        s["A_full"] = [
            _mk(k, h, p, sc, pto, g, q2, xl, x, "A")
            for g in ("G6", "G9", "L7", "G13")
            for k, h, p, sc, pto, q2 in itertools.product(SF_KINDS, ["light", "total", "charm", "bottom", "charmlight"], PROCS, schemes, [0, 1], [4.0, 30.0, 2e4])
            for xl, x in (_xl(g, "all") if g == "G6" else _xl(g, "8"))
            if not (g != "G6" and (q2 == 2e4 or h in ("bottom", "charmlight")))
        ]
        s["M_multi"] = [
            dict(_mk(k, h, p, sc, pto, g, q2, xl, x, "M"), before=before)
            for g in ("G6", "L7")
            for k, h, p, sc, pto in itertools.product(SF_KINDS, ["total", "light"], PROCS, ["ZM-VFNS", "FFNS3"], [1, 2])
            for (before, q2) in (([2.0, 10.0], 30.0), ([1e5, 30.0], 10.0), ([30.0, 30.0], 4.0))
            for xl, x in _xl(g, "3")[:2]
            if not (g == "L7" and (pto == 2 or sc == "FFNS3"))
        ]
        s["G_exotic"] = [
            _mk(k, h, p, sc, pto, g, q2, xl, x, "GX")
            for g in ("D1", "D5", "U7", "UL6", "M4")
            for k, h, p, sc, pto, q2 in itertools.product(SF_KINDS, ["total", "charm", "light"], PROCS, ["ZM-VFNS", "FFNS3", "FFN03"], [0, 1, 2], [4.0, 30.0])
            for xl, x in _xl(g, "all")
            if not (pto == 2 and (sc != "ZM-VFNS" or q2 == 4.0))
        ]
        s["C_pto23"] = [
            _mk(k, h, p, sc, pto, "G6", q2, xl, x, "C23")
            for k, h, p, sc, pto, q2 in itertools.product(SF_KINDS, ["light", "total", "charm"], PROCS, ["ZM-VFNS", "FFNS3", "FFN03"], [2, 3], [30.0])
            for xl, x in _xl("G6", "4")
        ]
    if tier == "thorough":
        s["N_abs_nlo"] = [
            dict(_mk(k, h, p, "ZM-VFNS", 1, g, q2, xl, x, "N"), abs=1, projectile=pr)
            for g in ("G6", "G9", "L7", "G13", "D5", "U7")
            for k, h, (p, pr), q2 in itertools.product(SF_KINDS, ["light", "total"], [("EM", "electron"), ("NC", "electron"), ("NC", "positron"), ("NC", "neutrino"), ("CC", "neutrino"), ("CC", "antineutrino"), ("CC", "electron"), ("CC", "positron")], [2.0, 10.0, 30.0, 1e5])
            for xl, x in (_xl(g, "all") if g == "G6" else _xl(g, "4"))
        ] + [
            dict(_mk(k, "total", "NC", "ZM-VFNS", 1, "G6", q2, xl, x, "N"), abs=1, projectile=pr, ew=ew)
            for ew in ({"pol": -0.6, "prc": 0.1, "s2w": 0.4, "MZ": 50.0}, {"pol": 1.0, "prc": 0.0, "s2w": 0.1, "MZ": 200.0}, {"pol": 0.3, "prc": -0.2, "s2w": 0.23126, "MZ": 91.1876})
            for k, pr, q2 in itertools.product(SF_KINDS, ["electron", "positron", "neutrino", "antineutrino"], [2.0, 10.0, 30.0, 1e5])
            for xl, x in _xl("G6", "4")
        ]
        s["W_cpl"] = [
            dict(_mk(k, h, "NC", sc, pto, g, q2, xl, x, "W"), cpl=1)
            for g in ("G6", "L7")
            for k, (sc, h), pto, q2 in itertools.product(["F2", "FL"], [("FFNS3", "charm"), ("FFNS3", "bottom"), ("FFNS4", "bottom"), ("FFNS5", "top"), ("FFN03", "charm"), ("FFN04", "bottom"), ("FFNS3", "light"), ("FFNS4", "light"), ("FONLL-FFNS4", "bottom"), ("FONLL-FFN03", "charm")], [1, 2], [10.0, 30.0, 2e4])
            for xl, x in _xl(g, "3")
            if not (g == "L7" and (pto == 2 or q2 != 30.0))
        ]
    return s


def states(tier, seed):
    out = []
    seen = set()
    for name, cells in slices(tier).items():
        for c in cells:
            k = digest({kk: vv for kk, vv in c.items() if kk != "slice"})  # 'before' is part of the identity
            if k in seen:
                continue
            seen.add(k)
            out.append(c)
    return out


def bounds(tier):
    return {name: len(c) for name, c in slices(tier).items()}


def _poly(basis, x):
    """a function exactly representable on the grid: degree<=deg polynomial in u (ln x or x)."""
    u = math.log(x) if basis.is_log else x
    u0 = basis.u[0]
    un = basis.u[-1]
    t = (u - u0) / (un - u0)
    v = 0.7 - 1.3 * t
    if basis.d >= 2:
        v += 2.1 * t * t
    if basis.d >= 3:
        v -= 0.9 * t**3
    if basis.d >= 4:
        v += 0.4 * t**4
    return v


_ABS_COEFF = {"F2": ("c2q", "c2g", "F2"), "FL": ("clq", "clg", "F2"), "F3": ("c3q", None, "F3"), "g1": ("c3q", "dcg", "g1"), "g4": ("c2q", None, "g4"), "gL": ("clq", None, "g4")}


def _abs_nlo(st):
    """O(a_s) operator of a massless run against a reference that shares nothing with the library: PDG weights x textbook coefficient functions (x) reference basis."""
    from ..ref import ref_ew, ref_nlo

    name = cards.obsname(st["kind"], st["heavyness"])
    cell = {k: st[k] for k in ("process", "scheme", "pto", "grid", "projectile")}
    cell["theory"] = {"RenScaleVar": False, "FactScaleVar": False}
    ew = st.get("ew", {})
    if ew:
        cell["theory"].update({"SIN2TW": ew["s2w"], "MZ": ew["MZ"]})
        cell["obscard"] = {"PolarizationDIS": ew["pol"], "PropagatorCorrection": ew["prc"]}
    out, status = rel.try_run(cell, {name: [cards.kin(st["x"], st["Q2"])]})
    if status != "ok":
        return {"violations": [], "nontrivial": False, "outcome": status, "transitions": 1, "info": {"n_" + status.split(":")[0]: 1}}
    nf = 3 + sum(1 for m in (1.51, 4.92, 172.5) if m * m <= st["Q2"])
    qn, gn, wkind = _ABS_COEFF[st["kind"]]
    W = ref_ew.lo_weights(wkind, st["heavyness"], st["process"], st["projectile"], nf, Q2=st["Q2"], ckm=cards.CKM_PDG, pol=ew.get("pol", 0.0), MZ=ew.get("MZ", 91.1876), s2w=ew.get("s2w", 0.23126), prc=ew.get("prc", 0.0))
    g, d, lg = cards.grid(st["grid"])
    basis = ref_basis.RefBasis(g, d, lg)
    n = basis.n
    x = st["x"]
    T = yrun.tensors(out[name][0])
    val, err = T[(1, 0, 0, 0)]
    pred = np.zeros((14, n))
    scale = np.zeros((14, n))
    perr = np.zeros((14, n))
    trip_q = getattr(ref_nlo, qn)()
    trip_g = getattr(ref_nlo, gn)(nf) if gn else None
    wg = sum(W.values()) / 2.0 / nf
    for j in range(n):
        sup = basis.support(j)
        if x >= sup[1] or not (0 < x < 1 - ref_conv.EPS_BORDER):
            continue
        vq, eq = ref_conv.convolve(trip_q[0], None, trip_q[1], None, trip_q[2], lambda y, j=j: basis.p(j, y), x, sup, basis.x)
        for pid, w in W.items():
            i = yrun.PIDX[pid]
            pred[i, j] += w * x * vq
            scale[i, j] += abs(w * x * vq)
            perr[i, j] += abs(w) * x * eq
        if trip_g is not None and wg != 0.0:
            vg, eg = ref_conv.convolve(trip_g[0], None, trip_g[1], None, trip_g[2], lambda y, j=j: basis.p(j, y), x, sup, basis.x)
            i = yrun.PIDX[21]
            pred[i, j] += wg * x * vg
            scale[i, j] += abs(wg * x * vg)
            perr[i, j] += abs(wg) * x * eg
    sc = scale + np.abs(val)
    tol = RTOL[1] * (sc + sc.max()) + 20 * (err + perr) + 1e-300
    dlt = np.abs(val - pred)
    worst = float((dlt / (sc + sc.max())).max()) if sc.max() > 0 else 0.0
    viol = []
    if np.any(dlt > tol):
        idx = np.unravel_index(np.argmax(dlt - tol), dlt.shape)
        fp = {k: st[k] for k in ("kind", "heavyness", "process", "scheme", "pto", "grid", "xlab")}
        viol.append({"fp": dict(fp, cls="abs-nlo", pid=int(yrun.PIDS[idx[0]])), "fpkey": {"cls": "abs-nlo", "kind": st["kind"], "process": st["process"], "gluon": bool(yrun.PIDS[idx[0]] == 21)},
                     "msg": f"{name} proc={st['process']}/{st['projectile']} ZM-VFNS n_f={nf} x={x!r} ({st['xlab']}) Q2={st['Q2']}: O(a_s) operator[pid={yrun.PIDS[idx[0]]}, j={idx[1]}] = {val[idx]:.10g}, PDG weight x textbook coefficient function (x) basis = {pred[idx]:.10g} (|delta|={dlt[idx]:.3e}, tol={tol[idx]:.3e})"})
    return {"violations": viol, "nontrivial": bool(np.any(val != 0)), "outcome": yrun.res_digest(out[name][0]), "transitions": 1, "info": {"maxrel_abs_nlo": worst}}


_CPL_CONFIGS = [
    # (process, projectile, polarisation, sin2thetaW, MZ, propagator correction)
    ("EM", "electron", 0.0, 0.23126, 91.1876, 0.0),
    ("NC", "electron", 0.0, 0.23126, 91.1876, 0.0),
    ("NC", "positron", 0.7, 0.23126, 91.1876, 0.0),
    ("NC", "neutrino", 0.0, 0.23126, 91.1876, 0.0),
    ("NC", "electron", -0.6, 0.4, 50.0, 0.0),
    ("NC", "antineutrino", 0.0, 0.1, 91.1876, 0.0),
    ("NC", "positron", -1.0, 0.35, 200.0, 0.0),
    ("NC", "electron", 0.9, 0.23126, 91.1876, 0.1),
    ("NC", "neutrino", 0.0, 0.45, 20.0, 0.0),
    ("NC", "positron", 0.0, 0.15, 30.0, -0.2),
]
_HQ = {"charm": 4, "bottom": 5, "top": 6}
_MASS = {4: 1.51, 5: 4.92, 6: 172.5}


def _cpl(st):
    """Coupling linearity of massive-scheme observables (see the slice comment) + closed-form O(a_s) gluon row of the EM run."""
    from ..ref import ref_ew, ref_nlo

    name = cards.obsname(st["kind"], st["heavyness"])
    nf = cards.SCHEMES[st["scheme"]][1]
    h = _HQ.get(st["heavyness"])
    x, Q2 = st["x"], st["Q2"]
    runs = []
    ntrans = 0
    for proc, proj, pol, s2w, MZ, prc in _CPL_CONFIGS:
        cell = {"process": proc, "projectile": proj, "scheme": st["scheme"], "pto": st["pto"], "grid": st["grid"],
                "theory": {"RenScaleVar": False, "FactScaleVar": False, "SIN2TW": s2w, "MZ": MZ}, "obscard": {"PolarizationDIS": pol, "PropagatorCorrection": prc}}
        out, status = rel.try_run(cell, {name: [cards.kin(x, Q2)]})
        ntrans += 1
        if status != "ok":
            return {"violations": [], "nontrivial": False, "outcome": status, "transitions": ntrans, "info": {"n_" + status.split(":")[0]: 1}}
        runs.append(yrun.tensors(out[name][0]))
    W = {q: [ref_ew.nc_weight(q, False, c[0], c[1], c[2], Q2, c[4], c[3], c[5]) for c in _CPL_CONFIGS] for q in range(1, 7)}
    S = np.sum([W[q] for q in range(1, nf + 1)], axis=0)
    viol = []
    fp0 = {k: st[k] for k in ("kind", "heavyness", "scheme", "pto", "grid", "xlab")}
    worst = 0.0
    nontrivial = False
    for k in range(1, st["pto"] + 1):
        key = (k, 0, 0, 0)
        if any(key not in r for r in runs):
            if any(key in r for r in runs):
                viol.append({"fp": dict(fp0, cls="cpl-key", key=list(key)), "fpkey": {"cls": "cpl-key", "kind": st["kind"], "heavyness": st["heavyness"]},
                             "msg": f"{name} {st['scheme']} pto={st['pto']} x={x!r} Q2={Q2}: order key {key} present for some electroweak configurations only"})
            continue
        R = np.array([r[key][0] for r in runs])  # (configs, 14, n)
        gmax = np.abs(R).max()
        if gmax == 0.0:
            continue
        nontrivial = True
        for i, pid in enumerate(yrun.PIDS):
            rows = R[:, i, :]
            if not np.any(rows != 0.0):
                continue
            if h is not None:
                # heavy-flavour observable: whatever the parton, the boson couples to the heavy quark
                sp = [ref_ew.nc_weight_split(h, c[0], c[1], c[2], Q2, c[4], c[3], c[5]) for c in _CPL_CONFIGS]
                cols = [[a for a, _ in sp], [b for _, b in sp]]
                what = f"VV_{h}(c) U_VV + AA_{h}(c) U_AA"
            elif pid == 21:
                cols = [S]
                what = "sum_{q<=nf} w_q(c) U"
            elif 1 <= abs(pid) <= nf:
                cols = [W[abs(pid)], S]
                what = f"w_{abs(pid)}(c) U_1 + sum_q w_q(c) U_2"
            else:
                cols = []
                what = "0 (no coupling to this parton)"
            if cols:
                A = np.array(cols, dtype=float).T  # (configs, m)
                coef, *_ = np.linalg.lstsq(A, rows, rcond=None)
                resid = rows - A @ coef
            else:
                resid = rows
            rs = np.abs(rows).max()
            m = float(np.abs(resid).max() / rs)
            worst = max(worst, m if rs > 1e-9 * gmax else 0.0)
            if m > 1e-10 and rs > 1e-9 * gmax:
                c_bad = int(np.argmax(np.abs(resid).max(axis=1)))
                viol.append({"fp": dict(fp0, cls="cpl-linearity", pid=int(pid), key=list(key)), "fpkey": {"cls": "cpl-linearity", "kind": st["kind"], "heavyness": st["heavyness"], "scheme": st["scheme"], "gluon": bool(pid == 21), "order": k},
                             "msg": f"{name} {st['scheme']} pto={st['pto']} x={x!r} ({st['xlab']}) Q2={Q2}: key {key} row pid={pid} over {len(_CPL_CONFIGS)} electroweak configurations is not {what} with the PDG couplings (relative residual {m:.3e}, worst configuration {_CPL_CONFIGS[c_bad]})"})
        # equal rows: in a heavy-flavour observable every light quark and antiquark enters through the flavour singlet with the heavy quark's couplings
        if h is not None and st["scheme"].startswith(("FFNS", "FFN0")):
            lq = [yrun.PIDX[p] for q in range(1, nf + 1) for p in (q, -q)]
            ref_row = R[:, lq[0], :]
            for i in lq[1:]:
                d = np.abs(R[:, i, :] - ref_row).max()
                if d > 1e-12 * gmax:
                    viol.append({"fp": dict(fp0, cls="cpl-singlet-rows", pid=int(yrun.PIDS[i]), key=list(key)), "fpkey": {"cls": "cpl-singlet-rows", "kind": st["kind"], "heavyness": st["heavyness"], "scheme": st["scheme"], "order": k},
                                 "msg": f"{name} {st['scheme']} pto={st['pto']} x={x!r} Q2={Q2}: key {key} rows of light partons {yrun.PIDS[lq[0]]} and {yrun.PIDS[i]} differ by {d:.3e} (heavy-quark production sees light quarks only through the flavour singlet)"})
                    break
    # closed-form O(a_s) gluon row of the EM run (massive calculation only; F2 and FL)
    worst_abs = 0.0
    if h is not None and st["scheme"].startswith("FFNS") and (1, 0, 0, 0) in runs[0]:
        val, err = runs[0][(1, 0, 0, 0)]
        g, d, lg = cards.grid(st["grid"])
        basis = ref_basis.RefBasis(g, d, lg)
        eps = _MASS[h] ** 2 / Q2
        trip = ref_nlo.hq_c2g(eps) if st["kind"] == "F2" else ref_nlo.hq_clg(eps)
        zmax = 1.0 / (1.0 + 4.0 * eps)
        eh2 = ref_ew.EQ[h] ** 2
        ig = yrun.PIDX[21]
        pred = np.zeros(basis.n)
        perr = np.zeros(basis.n)
        if 0 < x < zmax:
            for j in range(basis.n):
                sup = basis.support(j)
                if x >= sup[1]:
                    continue
                v, e = ref_conv.convolve(trip[0], None, None, None, 0.0, lambda y, j=j: basis.p(j, y), x, sup, basis.x, extra_breaks=(zmax,))
                pred[j] = eh2 * x * v
                perr[j] = eh2 * x * e
        sc = np.abs(pred).max() + np.abs(val[ig]).max()
        dlt = np.abs(val[ig] - pred)
        tol = RTOL[1] * (np.abs(pred) + sc) + 20 * (err[ig] + perr) + 1e-300
        worst_abs = float((dlt / (np.abs(pred) + sc)).max()) if sc > 0 else 0.0
        if np.any(dlt > tol):
            j = int(np.argmax(dlt - tol))
            viol.append({"fp": dict(fp0, cls="abs-hq-nlo"), "fpkey": {"cls": "abs-hq-nlo", "kind": st["kind"], "heavyness": st["heavyness"], "scheme": st["scheme"]},
                         "msg": f"{name} EM {st['scheme']} x={x!r} ({st['xlab']}) Q2={Q2}: O(a_s) gluon row[j={j}] = {val[ig][j]:.10g}, e_h^2 x closed-form photon-gluon fusion (x) basis = {pred[j]:.10g} (|delta|={dlt[j]:.3e}, tol={tol[j]:.3e})"})
        others = np.delete(val, [ig, yrun.PIDX[h], yrun.PIDX[-h]], axis=0)  # rows +-h carry the intrinsic heavy-quark kernels
        if np.any(others != 0.0):
            viol.append({"fp": dict(fp0, cls="abs-hq-nlo-rows"), "fpkey": {"cls": "abs-hq-nlo-rows", "kind": st["kind"], "heavyness": st["heavyness"], "scheme": st["scheme"]},
                         "msg": f"{name} EM {st['scheme']} x={x!r} Q2={Q2}: the O(a_s) operator of heavy-quark pair production has non-zero light-quark rows (only the gluon and the intrinsic heavy quark enter at this order)"})
    # assignment table of the massive calculation (FFNS, heavy-flavour observable): gluon <- VV_h GluonVV + AA_h GluonAA, every light (anti)quark <- VV_h SingletVV + AA_h SingletAA,
    # with the PDG couplings of the heavy quark and the library's coefficient classes taken BY NAME (not from the kernel list the engine assembled), convolved by the reference
    worst_asg = 0.0
    if h is not None and st["scheme"].startswith("FFNS") and not viol:
        from yadism.coefficient_functions.heavy import kernels as hk

        ci = 4
        c = _CPL_CONFIGS[ci]
        cell = {"process": c[0], "projectile": c[1], "scheme": st["scheme"], "pto": st["pto"], "grid": st["grid"],
                "theory": {"RenScaleVar": False, "FactScaleVar": False, "SIN2TW": c[3], "MZ": c[4]}, "obscard": {"PolarizationDIS": c[2], "PropagatorCorrection": c[5]}}
        esf = yrun.runner(cell, {name: [cards.kin(x, Q2)]}).observables[name].elements[-1]
        pcs = hk.import_pc_module(st["kind"], "NC")
        m2 = _MASS[h] ** 2
        vv, aa = ref_ew.nc_weight_split(h, c[0], c[1], c[2], Q2, c[4], c[3], c[5])
        g, d, lg = cards.grid(st["grid"])
        basis = ref_basis.RefBasis(g, d, lg)
        zt = Q2 / (Q2 + 4.0 * m2)
        xb = (zt, zt * (1 - 1e-9), zt * (1 - 1e-4), zt * (1 - 1e-2))
        table = {"g": [("GluonVV", vv), ("GluonAA", aa)], "q": [("SingletVV", vv), ("SingletAA", aa)]}
        for k in range(1, st["pto"] + 1):
            key = (k, 0, 0, 0)
            if key not in runs[ci]:
                continue
            val, err = runs[ci][key]
            for row, lst in table.items():
                pred = np.zeros(basis.n)
                scl = np.zeros(basis.n)
                perr = np.zeros(basis.n)
                for cname, w in lst:
                    kw = {"n3lo_cf_variation": 0} if cname.endswith("VV") else {}
                    obj = getattr(pcs, cname)(esf, nf, m2hq=m2, **kw)
                    rsl = obj[k]()
                    ntrans += 1
                    if rsl is None:
                        continue
                    delta = float(rsl.loc(0.0, rsl.args["loc"])) if rsl.loc is not None else 0.0
                    for j in range(basis.n):
                        sup = basis.support(j)
                        if x >= sup[1] or not (0 < x < 1 - ref_conv.EPS_BORDER):
                            continue
                        v, e = ref_conv.convolve(rsl.reg, rsl.args["reg"], rsl.sing, rsl.args["sing"], delta, lambda y, j=j: basis.p(j, y), x, sup, basis.x, extra_breaks=xb)
                        pred[j] += w * x * v
                        scl[j] += abs(w * x * v)
                        perr[j] += abs(w) * x * e
                rows_i = [yrun.PIDX[21]] if row == "g" else [yrun.PIDX[pp] for q in range(1, nf + 1) for pp in (q, -q)]
                for i in rows_i:
                    sc = scl + np.abs(val[i])
                    tol = RTOL[k] * (sc + sc.max()) + ERRFAC * (err[i] + perr) + 1e-300
                    dlt = np.abs(val[i] - pred)
                    if sc.max() > 0:
                        worst_asg = max(worst_asg, float((dlt / (sc + sc.max())).max()))
                    if np.any(dlt > tol):
                        j = int(np.argmax(dlt - tol))
                        viol.append({"fp": dict(fp0, cls="hq-assignment", pid=int(yrun.PIDS[i]), key=list(key)), "fpkey": {"cls": "hq-assignment", "kind": st["kind"], "heavyness": st["heavyness"], "scheme": st["scheme"], "gluon": row == "g", "order": k},
                                     "msg": f"{name} NC {c[1]} (P={c[2]}, sin2thetaW={c[3]}, MZ={c[4]}) {st['scheme']} x={x!r} ({st['xlab']}) Q2={Q2}: key {key} row pid={yrun.PIDS[i]} [j={j}] = {val[i][j]:.10g}, but VV_{h} x {lst[0][0]} + AA_{h} x {lst[1][0]} (PDG couplings of the heavy quark, reference convolution) = {pred[j]:.10g} (|delta|={dlt[j]:.3e}, tol={tol[j]:.3e})"})
                        break
    return {"violations": viol, "nontrivial": nontrivial, "outcome": digest([yrun.res_digest_t(r) if hasattr(yrun, "res_digest_t") else sorted((str(k), float(np.abs(v[0]).sum())) for k, v in r.items()) for r in runs]), "transitions": ntrans,
            "info": {"maxrel_cpl_linearity": worst, "maxrel_abs_hq_nlo": worst_abs, "maxrel_hq_assignment": worst_asg}}


def execute(st):
    if st.get("abs"):
        return _abs_nlo(st)
    if st.get("cpl"):
        return _cpl(st)
    import yadism.coefficient_functions as cf

    yrun.reset_memos()
    name = cards.obsname(st["kind"], st["heavyness"])
    cell = dict(st)
    cell["theory"] = dict(st.get("theoryx", {}), RenScaleVar=False, FactScaleVar=False)
    kin = cards.kin(st["x"], st["Q2"])
    fp = {k: st[k] for k in ("kind", "heavyness", "process", "scheme", "pto", "grid", "xlab")}
    try:
        before = [cards.kin(st["x"], q) for q in st.get("before", [])]
        r = yrun.runner(cell, {name: before + [kin]})
        if before:
            r.get_result()  # the public path: all points, sorted by Q2, caches shared
        esf = r.observables[name].elements[-1]
        res = esf.get_result()
        elems = cf.Combiner(esf).collect_elems()
    except Exception as e:
        info = rel.note_failure(e, {k: v for k, v in cell.items() if k != "theory"}, [name])  # anything but an accepted exclusion becomes a violation (engine)
        return {"violations": [], "nontrivial": False, "outcome": f"excluded:{info['exc']}", "transitions": 1, "info": {"n_excluded_by_exception": 1}}
    g, d, lg = cards.grid(st["grid"])
    basis = ref_basis.RefBasis(g, d, lg)
    n = basis.n
    T = yrun.tensors(res)
    orders = [o for o in range(st["pto"] + 1)]
    pred = {o: np.zeros((14, n)) for o in orders}
    scale = {o: np.zeros((14, n)) for o in orders}
    rerr = {o: np.zeros((14, n)) for o in orders}
    span_pred = {o: np.zeros(14) for o in orders}
    span_scale = {o: np.zeros(14) for o in orders}
    nonlocal_contrib = False
    nk = 0
    for cfe in elems:
        for o in orders:
            if not cfe.has_order(o):
                continue
            rsl = cfe.coeff[o]()
            if rsl is None:
                continue
            nk += 1
            xc = float(cfe.coeff.convolution_point())
            delta = float(rsl.loc(0.0, rsl.args["loc"])) if rsl.loc is not None else 0.0
            w = np.array([cfe.partons.get(pid, 0.0) for pid in yrun.PIDS], dtype=float)
            if rsl.reg is not None or rsl.sing is not None:
                nonlocal_contrib = True
            if not (0 < xc < 1 - ref_conv.EPS_BORDER):
                continue  # empty domain: contributes exactly 0 (documented)
            # kernels with a partonic threshold have a kink/step in z there: tell the reference quadrature
            xb = ()
            if hasattr(cfe.coeff, "is_below_pair_threshold"):
                zt = st["Q2"] / (st["Q2"] + 4.0 * float(cfe.coeff.m2hq))
                xb = (zt, zt * (1 - 1e-9), zt * (1 - 1e-4), zt * (1 - 1e-2))
            for j in range(n):
                sup = basis.support(j)
                if xc >= sup[1]:
                    continue
                v, e = ref_conv.convolve(rsl.reg, rsl.args["reg"], rsl.sing, rsl.args["sing"], delta, lambda y, j=j: basis.p(j, y), xc, sup, basis.x, extra_breaks=xb)
                pred[o][:, j] += w * xc * v
                scale[o][:, j] += np.abs(w) * xc * abs(v)
                rerr[o][:, j] += np.abs(w) * xc * e
            # span oracle: direct convolution with the exactly representable function (no basis involved)
            v, e = ref_conv.convolve(rsl.reg, rsl.args["reg"], rsl.sing, rsl.args["sing"], delta, lambda y: _poly(basis, y), xc, (basis.x[0], basis.x[-1]), [basis.x[0], basis.x[-1]], extra_breaks=xb)
            span_pred[o] += w * xc * v
            span_scale[o] += np.abs(w) * xc * abs(v)
    viol = []
    per_order = {}
    maxrel = 0.0
    maxrel_span = 0.0
    nonzero = False
    fvals = np.array([_poly(basis, xx) for xx in basis.x])
    for o in orders:
        key = (o, 0, 0, 0)
        if key not in T:
            viol.append({"fp": dict(fp, cls="missing-key", order=o), "msg": f"{name} {st}: order key {key} missing in the result"})
            continue
        val, err = T[key]
        if not np.all(np.isfinite(val)):
            # the open known finding (N3LO massive NC) is C16's business; any other non-finite entry is recorded and becomes a violation (engine)
            rel.note_nonfinite(cell, {name: [res]}, [name])
            return {"violations": [], "nontrivial": False, "outcome": "excluded:nonfinite", "transitions": 1, "info": {"n_excluded_nonfinite": 1}}
        if np.any(val != 0):
            nonzero = True
        if st["x"] >= 1.0:
            if np.any(val != 0):
                viol.append({"fp": dict(fp, cls="x1-nonzero", order=o), "msg": f"{name} at x=1 returns a non-zero operator at order {o} (documented border: exactly 0)"})
            continue
        sc = scale[o] + np.abs(val)
        tol = RTOL[o] * (sc + sc.max()) + ERRFAC * (err + rerr[o]) + 1e-300
        dlt = np.abs(val - pred[o])
        with np.errstate(divide="ignore", invalid="ignore"):
            rr = np.where(sc + sc.max() > 0, dlt / (sc + sc.max()), 0.0)
        maxrel = max(maxrel, float(rr.max()))
        per_order[f"maxrel_order{o}"] = float(rr.max())
        if np.any(dlt > tol):
            idx = np.unravel_index(np.argmax(dlt - tol), dlt.shape)
            viol.append({
                "fp": dict(fp, cls="operator", order=o, pid=yrun.PIDS[idx[0]]),
                "fpkey": {"cls": "operator", "kind": st["kind"], "heavyness": st["heavyness"], "process": st["process"], "scheme": st["scheme"], "order": o, "grid": st["grid"]},
                "msg": f"{name} proc={st['process']} {st['scheme']} grid={st['grid']} x={st['x']} ({st['xlab']}) Q2={st['Q2']}: order {o} operator[pid={yrun.PIDS[idx[0]]}, j={idx[1]}] = {val[idx]:.10g}, reference convolution = {pred[o][idx]:.10g} (|delta|={dlt[idx]:.3e}, tol={tol[idx]:.3e})",
                "data": {"order": o, "pid": yrun.PIDS[idx[0]], "j": int(idx[1]), "observed": float(val[idx]), "predicted": float(pred[o][idx]), "tol": float(tol[idx])},
            })
        # span oracle
        contr = val @ fvals
        ssc = span_scale[o] + np.abs(val) @ np.abs(fvals)
        stol = RTOL[o] * (ssc + ssc.max()) + ERRFAC * (err @ np.abs(fvals)) + 1e-300
        sd = np.abs(contr - span_pred[o])
        with np.errstate(divide="ignore", invalid="ignore"):
            rs = np.where(ssc + ssc.max() > 0, sd / (ssc + ssc.max()), 0.0)
        maxrel_span = max(maxrel_span, float(rs.max()))
        if np.any(sd > stol) and not viol:
            i = int(np.argmax(sd - stol))
            viol.append({
                "fp": dict(fp, cls="span", order=o, pid=yrun.PIDS[i]),
                "fpkey": {"cls": "span", "kind": st["kind"], "heavyness": st["heavyness"], "process": st["process"], "scheme": st["scheme"], "order": o, "grid": st["grid"]},
                "msg": f"{name} proc={st['process']} {st['scheme']} grid={st['grid']} x={st['x']} Q2={st['Q2']}: order {o}: operator contracted with an exactly representable polynomial = {contr[i]:.10g} for pid {yrun.PIDS[i]}, direct convolution = {span_pred[o][i]:.10g}",
            })
    return {
        "violations": viol[:1],
        "nontrivial": bool(nonzero and nonlocal_contrib and st["x"] < 1.0) or (st["x"] >= 1.0 and nk > 0),
        "outcome": yrun.res_digest(res),
        "transitions": 1 + nk,
        "sub": 1,
        "info": dict(per_order, maxrel=maxrel, maxrel_span=maxrel_span, n_kernel_orders=nk),
    }


LEVEL_TEXT = (
    "Bounded-exhaustive model checking with reference-model conformance: every state of the enumerated lattice (kind x heavyness x process x scheme x PTO x grid x Q2 x "
    "lattice point x, incl. nodes, block interiors, node(1±1e-9), xmin(1+1e-9), 0.999, 1) is executed on the real compute_local(), and every operator entry of every "
    "(k,0,0,0) key is compared with an executable reference that convolves the kernel list with an independently written Lagrange basis straight from the definition of "
    "the plus prescription (delta coefficient only, integral of the singular part by quadrature); a second oracle contracts the operator with an exactly representable "
    "polynomial and compares with the direct convolution, using no basis at all."
    " Slice N_abs_nlo checks the O(a_s) operator of massless runs against a reference that shares nothing with the library (PDG weights x textbook NLO coefficient functions (x) reference basis), which also pins the weights assigned to each parton, the gluon included."
)
LEVEL_NOTE = (
    "Trusted: SciPy quad, the kernels' reg/sing callables and loc(0+) (C03/C04 decide those), the parton weights of the kernel list (C02/C12/C13), the documented 1e-10 integration borders. "
    "Grids outside {G6,G9,L7,G13,D1,D5,U7,UL6,M4}, x and Q2 outside the lattices, and PTO>=2 massive kernels outside the thorough slice are not covered."
)
TECHNIQUE = "bounded-exhaustive enumeration of a configuration x kinematics lattice with state-by-state conformance of the implementation to an executable reference model"
