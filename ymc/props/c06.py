"""C06 — number of active flavours follows the thresholds and the scheme.

LatticeExplorer with a counting reference (fractions.Fraction): n_f = 3 + #{q : (m_q k_q)^2 <= Q2} in ZM-VFNS, NfFF otherwise.
Observations of the n_f the code actually used:
 (a) the set of pids with non-zero rows in the LO F2_light operator = {±1..±n_f};
 (b) ZM-VFNS NLO result is bit-identical to a fixed-flavour run with NfFF = reference n_f and default masses
     (dependence on the thresholds only through n_f; the gluon row carries sum_{q<=n_f} e_q^2);
 (c) PTO 2: tensor (2,0,1,0) = -beta0(n_f) * tensor (1,0,0,0), all rows incl. intrinsic heavy-quark rows.
"""
import itertools
import math
from fractions import Fraction

import numpy as np

from .. import cards, rel, yrun
from ..engine import digest

HISTORY_SWEEP = True
ID = "C06"
XS = [0.01, 0.2]

DYADIC_M = (1.5, 4.5, 172.0)
DYADIC_K = [(1.0, 1.0, 1.0), (2.0, 1.0, 1.0), (0.5, 1.0, 1.0), (1.0, 0.5, 1.0), (1.0, 2.0, 0.5), (1.5, 1.5, 1.5), (2.0, 1.5, 0.5), (0.5, 0.5, 0.5), (1.5, 0.5, 2.0)]
GENERIC = [((1.51, 4.92, 172.5), (1.0, 1.0, 1.0)), ((1.51, 4.92, 172.5), (1.3, 1.0, 0.7)), ((1.3, 4.2, 173.0), (0.7, 1.3, 1.0)), ((1.51, 4.92, 172.5), (2.0, 2.0, 2.0))]

RULE = (
    "states = (threshold alphabet entry (masses, kThr), which threshold, Q2 variant: one ulp below / exactly at / one ulp above (dyadic alphabets), T(1±1e-12) (generic), far below/above) for ZM-VFNS; "
    "(scheme FFNS/FFN0/FONLL-* x NfFF 3..5 x Q2) for fixed-flavour schemes; PTO-2 beta0 cells; non-monotone threshold cards. Per state the real runs are executed and the observed n_f "
    "(LO row support; bit-identity with the fixed-n_f run; -beta0 ratio) is compared with the Fraction reference; non-trivial = Q2 within one ulp / 1e-12 of a threshold, or beta0 cell with non-zero rows"
)
ASSUMPTIONS = [
    "dyadic alphabets: (m k)^2 exactly representable so that 'exactly at threshold' has one meaning for code and reference; the reference squares and multiplies in exact rational arithmetic",
    "observable F2_light (EM) for (a),(b); F2/F3 total and light (NC, CC) for (c); grid G6, x in {0.01, 0.2}",
    "mass reference scales Qmc/Qmb/Qmt equal to the masses; for a sub-lattice 0.75x, 2x the masses and absent (HQ=POLE: the matching scales are (m k)^2 whatever Qm is)",
    "non-monotone matching scales are rejected by the library with ValueError (numpy digitize): counted as rejected, any other outcome there is a violation",
    "beta0 = 11 - 2 n_f / 3 (a_s = alpha_s/4pi normalisation), compared at 1e-12",
]
BUDGET = {"quick": 900, "thorough": 3600}


def _thr(m, k):
    return [Fraction(mm) * Fraction(mm) * Fraction(kk) * Fraction(kk) for mm, kk in zip(m, k)]


def ref_nf_zm(m, k, q2):
    return 3 + sum(1 for t in _thr(m, k) if t <= Fraction(q2))


def _states_base(tier, seed):
    out = []
    alph = [(DYADIC_M, k, "dyadic") for k in (DYADIC_K if tier == "thorough" else DYADIC_K[:6])] + [(m, k, "generic") for m, k in GENERIC]
    for m, k, typ in alph:
        thr = [float(t) for t in _thr(m, k)]
        if sorted(thr) != thr:
            continue
        for ti, T in enumerate(thr):
            if typ == "dyadic":
                variants = [("ulp-", math.nextafter(T, 0.0)), ("at", T), ("ulp+", math.nextafter(T, math.inf))]
            else:
                variants = [("rel-", T * (1 - 1e-12)), ("rel+", T * (1 + 1e-12))]
            variants += [("mid-", T * 0.7), ("mid+", T * 1.4)]
            for lab, q2 in variants:
                out.append({"t": "zm", "m": list(m), "k": list(k), "typ": typ, "thr": ti, "variant": lab, "Q2": q2})
        for q2 in (0.3, 1e8):
            out.append({"t": "zm", "m": list(m), "k": list(k), "typ": typ, "thr": -1, "variant": "far", "Q2": q2})
    # fixed flavour number schemes
    for fns, nf, q2 in itertools.product(["FFNS", "FFN0", "FONLL-FFNS", "FONLL-FFN0"], [3, 4, 5], [0.3, 2.25, 2.2801, 20.25, 30.0, 1e5, 1e8]):
        if tier == "quick" and q2 in (2.25, 20.25, 1e5):
            continue
        out.append({"t": "ff", "fns": fns, "nf": nf, "Q2": q2})
    # beta0
    b0 = [
        ("ZM-VFNS", "F2_total", "NC", 2.0), ("ZM-VFNS", "F2_total", "NC", 10.0), ("ZM-VFNS", "F2_light", "EM", 30.0), ("ZM-VFNS", "F3_total", "CC", 30.0),
        ("FFNS3", "F2_total", "NC", 30.0), ("FFNS3", "F2_light", "EM", 30.0), ("FFNS3", "F2_bottom", "NC", 300.0), ("FFNS4", "F2_total", "NC", 300.0),
        ("FFNS3", "F3_total", "CC", 30.0), ("FFNS5", "FL_total", "NC", 1e5), ("FONLL-FFNS4", "F2_total", "NC", 100.0), ("FFN03", "F2_total", "NC", 30.0),
    ]
    if tier == "thorough":
        b0 += [("ZM-VFNS", "FL_total", "NC", 1e5), ("FFNS4", "F3_total", "CC", 300.0), ("FFN04", "F2_total", "EM", 300.0), ("FONLL-FFN03", "F2_total", "NC", 30.0), ("FFNS3", "g1_total", "NC", 30.0), ("FFNS4", "F2_top", "NC", 1e5)]
    for sc, o, p, q2 in b0:
        out.append({"t": "beta0", "scheme": sc, "obs": o, "process": p, "Q2": q2})
    # the pure-singlet rows of single-flavour massless observables at O(a_s^2) are populated for exactly the n_f active quarks
    for (obs, proc), (sc, q2) in itertools.product([("F2_charm", "CC"), ("F2_charm", "NC"), ("FL_charm", "CC"), ("F2_bottom", "NC")], [("ZM-VFNS", 10.0), ("ZM-VFNS", 30.0), ("ZM-VFNS", 1e5), ("FFNS5", 30.0), ("FFNS4", 30.0)]):
        out.append({"t": "psrows", "obs": obs, "process": proc, "scheme": sc, "Q2": q2})
    # non monotone thresholds
    for k in [(4.0, 1.0, 1.0), (1.0, 1.0, 0.01), (1.0, 40.0, 1.0)]:
        out.append({"t": "nonmono", "k": list(k), "Q2": 30.0})
    return out


def _nonzero_quark_rows(val):
    return sorted(yrun.PIDS[i] for i in range(14) if np.any(val[i] != 0) and yrun.PIDS[i] not in (21, 22))


def _v(st, what, msg):
    fp = dict(st, cls=what)
    return {"fp": fp, "fpkey": {"cls": what, "t": st["t"], "variant": st.get("variant"), "scheme": st.get("scheme", st.get("fns"))}, "msg": msg}


def _states_qm(seed):
    out = []
    for st in _states_base("thorough", seed):
        if st["t"] == "zm" and st["variant"] in ("ulp-", "at", "rel-", "rel+") and (st["typ"] == "generic" or st["k"] in (list(DYADIC_K[0]), list(DYADIC_K[1]))):
            out += [dict(st, qm=q) for q in (0.75, 2.0, "del")]
    return out


def states(tier, seed):
    """quick = the full base lattice; thorough = base lattice + the deep extension."""
    base = _states_base("thorough", seed) + _states_qm(seed)
    if tier == "quick":
        return base
    seen = {digest(s) for s in base}
    return base + [s for s in _states_deep(seed) if digest(s) not in seen]


def _states_deep(seed):
    out = []
    ks = [k for k in itertools.product((1.0, 2.0, 0.5, 1.5), repeat=3)]
    for k in ks:
        thr = [float(t) for t in _thr(DYADIC_M, k)]
        if sorted(thr) != thr:
            continue
        for ti, T in enumerate(thr):
            for lab, q2 in (("ulp-", math.nextafter(T, 0.0)), ("at", T), ("ulp+", math.nextafter(T, math.inf))):
                out.append({"t": "zm", "m": list(DYADIC_M), "k": list(k), "typ": "dyadic", "thr": ti, "variant": lab, "Q2": q2})
    for fns, nf, q2 in itertools.product(["FFNS", "FFN0", "FONLL-FFNS", "FONLL-FFN0"], [3, 4, 5], [0.11, 1.0, 2.28, 2.29, 24.2, 24.3, 29756.0, 29757.0, 1e6]):
        out.append({"t": "ff", "fns": fns, "nf": nf, "Q2": q2})
    return out


def execute(st):
    yrun.reset_memos()
    return {"zm": _zm, "ff": _ff, "beta0": _beta0, "nonmono": _nonmono, "psrows": _psrows}[st["t"]](st)


def _psrows(st):
    fns, nfff = cards.SCHEMES[st["scheme"]]
    nf = ref_nf_zm((1.51, 4.92, 172.5), (1.0, 1.0, 1.0), st["Q2"]) if fns == "ZM-VFNS" else nfff
    ihq = {"charm": 4, "bottom": 5}[st["obs"].split("_")[1]]
    out, s0 = rel.try_run({"scheme": st["scheme"], "process": st["process"], "pto": 2, "theory": {"RenScaleVar": False, "FactScaleVar": False}}, {st["obs"]: [cards.kin(x, st["Q2"]) for x in XS]})
    if s0 != "ok":
        return {"violations": [], "nontrivial": False, "outcome": s0, "transitions": 1, "info": {"n_" + s0.split(":")[0]: 1}}
    viol = []
    massless = ihq <= nf  # otherwise the observable is massive / absent: nothing to say here
    for i in range(len(XS)):
        rows = _nonzero_quark_rows(yrun.tensors(out[st["obs"]][i])[(2, 0, 0, 0)][0])
        exp = sorted([q for q in range(1, nf + 1)] + [-q for q in range(1, nf + 1)])
        if massless and rows != exp:
            viol.append(_v(st, "ps-rows", f"{st['obs']} {st['process']} {st['scheme']} Q2={st['Q2']}: the O(a_s^2) operator has quark rows {rows}; with n_f={nf} active flavours the pure-singlet piece populates +-1..+-{nf}"))
            break
    return {"violations": viol[:1], "nontrivial": massless, "outcome": f"nf={nf}:{massless}", "transitions": 1}


def _masses(m, k, qm=None):
    th = {"mc": m[0], "mb": m[1], "mt": m[2], "kcThr": k[0], "kbThr": k[1], "ktThr": k[2], "Qmc": m[0], "Qmb": m[1], "Qmt": m[2]}
    if qm == "del":  # cards without mass reference scales
        th.update({"Qmc": "__del__", "Qmb": "__del__", "Qmt": "__del__"})
    elif qm is not None:  # reference scales different from the (pole) masses: must not move any matching scale
        th.update({"Qmc": m[0] * qm, "Qmb": m[1] * qm, "Qmt": m[2] * qm})
    return th


def _zm(st):
    nf = ref_nf_zm(st["m"], st["k"], st["Q2"])
    obs = {"F2_light": [cards.kin(x, st["Q2"]) for x in XS]}
    out, s0 = rel.try_run({"scheme": "ZM-VFNS", "process": "EM", "pto": 1, "theory": _masses(st["m"], st["k"], st.get("qm"))}, obs)
    if s0 != "ok":
        return {"violations": [_v(st, "run-failed", f"ZM-VFNS run failed ({s0}) for {st}")], "nontrivial": True, "outcome": s0, "transitions": 1}
    viol = []
    # (a) LO row support
    for i in range(len(XS)):
        T = yrun.tensors(out["F2_light"][i])
        rows = _nonzero_quark_rows(T[(0, 0, 0, 0)][0])
        exp = sorted([q for q in range(1, nf + 1)] + [-q for q in range(1, nf + 1)])
        if rows != exp:
            viol.append(_v(st, "lo-rows", f"ZM-VFNS m={st['m']} k={st['k']} Q2={st['Q2']!r} ({st['variant']} threshold {st['thr']}): LO F2_light has quark rows {rows}; reference n_f={nf} expects ±1..±{nf}"))
            break
    # (b) bit-identical to the fixed-nf run with default masses
    ref, s1 = rel.try_run({"scheme": "FFNS3", "process": "EM", "pto": 1, "theory": {"NfFF": nf}}, obs)
    if s1 != "ok":
        viol.append(_v(st, "ref-run-failed", f"FFNS NfFF={nf} reference run failed ({s1})"))
    elif not viol:
        for i in range(len(XS)):
            ok, why = rel.bit_identical(yrun.tensors(out["F2_light"][i]), yrun.tensors(ref["F2_light"][i]))
            if not ok:
                viol.append(_v(st, "not-only-through-nf", f"ZM-VFNS m={st['m']} k={st['k']} Q2={st['Q2']!r} ({st['variant']}): F2_light differs from the fixed-flavour run with n_f={nf} (reference count): {why}"))
                break
    return {"violations": viol[:1], "nontrivial": st["variant"] in ("ulp-", "at", "ulp+", "rel-", "rel+"), "outcome": f"nf={nf}", "transitions": 2}


def _ff(st):
    sc = {"FFNS": "FFNS3", "FFN0": "FFN03", "FONLL-FFNS": "FONLL-FFNS3", "FONLL-FFN0": "FONLL-FFN03"}[st["fns"]]
    obs = {"F2_light": [cards.kin(x, st["Q2"]) for x in XS]}
    out, s0 = rel.try_run({"scheme": sc, "process": "EM", "pto": 1, "theory": {"NfFF": st["nf"]}}, obs)
    if s0 != "ok":
        return {"violations": [_v(st, "run-failed", f"{st['fns']} NfFF={st['nf']} run failed ({s0}) at Q2={st['Q2']}")], "nontrivial": True, "outcome": s0, "transitions": 1}
    viol = []
    nf = st["nf"]
    for i in range(len(XS)):
        T = yrun.tensors(out["F2_light"][i])
        rows = _nonzero_quark_rows(T[(0, 0, 0, 0)][0])
        exp = sorted([q for q in range(1, nf + 1)] + [-q for q in range(1, nf + 1)])
        if rows != exp:
            viol.append(_v(st, "lo-rows", f"{st['fns']} NfFF={nf} Q2={st['Q2']}: LO F2_light has quark rows {rows}, expected ±1..±{nf}"))
            break
        # gluon row ~ sum e_q^2 : compare with the plain FFNS run (same n_f) bit-for-bit at NLO
    ref, s1 = rel.try_run({"scheme": "FFNS3", "process": "EM", "pto": 1, "theory": {"NfFF": nf}}, obs)
    if s1 == "ok" and not viol:
        for i in range(len(XS)):
            ok, why = rel.bit_identical(yrun.tensors(out["F2_light"][i]), yrun.tensors(ref["F2_light"][i]))
            if not ok:
                viol.append(_v(st, "ff-differs", f"{st['fns']} NfFF={nf} Q2={st['Q2']}: NLO F2_light differs from plain FFNS with the same NfFF: {why}"))
                break
    return {"violations": viol[:1], "nontrivial": True, "outcome": f"{st['fns']}:{nf}", "transitions": 2}


def _beta0(st):
    sc = st["scheme"]
    obs = {st["obs"]: [cards.kin(x, st["Q2"]) for x in XS]}
    out, s0 = rel.try_run({"scheme": sc, "process": st["process"], "pto": 2}, obs)
    if s0 != "ok":
        return {"violations": [_v(st, "run-failed", f"beta0 cell run failed ({s0}) for {st}")], "nontrivial": True, "outcome": s0, "transitions": 1}
    fns, nfff = cards.SCHEMES[sc]
    nf = ref_nf_zm((1.51, 4.92, 172.5), (1.0, 1.0, 1.0), st["Q2"]) if fns == "ZM-VFNS" else nfff
    beta0 = 11.0 - 2.0 * nf / 3.0
    viol = []
    nz = False
    worst = 0.0
    for i in range(len(XS)):
        T = yrun.tensors(out[st["obs"]][i])
        for lnf in (0, 1):
            a, b = T[(2, 0, 1, lnf)][0], T[(1, 0, 0, lnf)][0]
            exp = -beta0 * b
            g = np.max(np.abs(exp)) if exp.size else 0.0
            d = np.abs(a - exp)
            if g > 0:
                nz = True
                worst = max(worst, float(np.max(d) / g))
            if np.any(d > 1e-12 * (np.abs(exp) + g)):
                idx = np.unravel_index(np.argmax(d), d.shape)
                pid = yrun.PIDS[idx[0]]
                ratio = a[idx] / b[idx] if b[idx] != 0 else float("nan")
                nf_obs = (11.0 + ratio) * 1.5
                viol.append(_v(st, "beta0", f"{st['obs']} {st['process']} {sc} Q2={st['Q2']} x={XS[i]}: order (2,0,1,{lnf}) row pid {pid}: ratio to (1,0,0,{lnf}) = {ratio:.12g} i.e. n_f = {nf_obs:.6g}; reference -beta0({nf}) = {-beta0:.12g}"))
                break
        if viol:
            break
    return {"violations": viol[:1], "nontrivial": nz, "outcome": f"beta0:{nf}", "transitions": 1, "info": {"maxrel_beta0": worst}}


def _nonmono(st):
    obs = {"F2_light": [cards.kin(0.1, st["Q2"])]}
    try:
        yrun.run({"scheme": "ZM-VFNS", "process": "EM", "pto": 0, "theory": _masses((1.51, 4.92, 172.5), st["k"])}, obs)
    except ValueError:
        return {"violations": [], "nontrivial": True, "outcome": "rejected", "transitions": 1, "info": {"n_rejected": 1}}
    except Exception as e:
        return {"violations": [_v(st, "nonmono-exception", f"non-monotone thresholds k={st['k']}: {type(e).__name__}: {e}")], "nontrivial": True, "outcome": type(e).__name__, "transitions": 1}
    # accepted: then the count definition must hold
    return {"violations": [_v(st, "nonmono-accepted", f"non-monotone thresholds k={st['k']} were accepted; the library is expected to reject them")], "nontrivial": True, "outcome": "accepted", "transitions": 1}


LEVEL_TEXT = (
    "Bounded-exhaustive model checking against a counting reference in exact rational arithmetic: every (threshold alphabet entry x threshold x Q2 variant) state, with Q2 exactly at, one ulp below and "
    "one ulp above each matching scale for the dyadic alphabets, every fixed-flavour scheme x NfFF x Q2 state and every PTO-2 beta0 cell is executed on the real code; the number of flavours actually used is "
    "observed three ways (LO row support, bit-identity with the fixed-n_f run, -beta0(n_f) ratio of the muR term on all rows incl. intrinsic ones) and compared with the reference."
)
LEVEL_NOTE = "Trusted: fractions.Fraction, math.nextafter, numpy. Threshold alphabets, observables and kinematics outside those listed are not covered."
TECHNIQUE = "bounded-exhaustive enumeration of threshold/scale boundary states with an exact-arithmetic counting reference model"
