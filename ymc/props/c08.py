"""C08 — FFN0 is the high-virtuality limit of the massive (FFNS) calculation.

State = (heavy flavour, NfFF, kind, process, observable heavyness, PTO, x): FFNS and FFN0 runs of the same card along a ladder r = Q2/m2 = 1e2..1e6;
Delta(r) = O_FFNS - O_FFN0 per order key, contracted with analytic PDFs (incl. a heavy-quark component) separately for the gluon row,
the light-quark rows and the heavy-quark (intrinsic) rows.
Oracle with S = max over the ladder of the cancellation-safe size sum|O_FFNS f|:
  (a) envelope  |Delta(r)| <= 3 S (1+ln r)^3 / r  for every r;
  (b) smallness |Delta(1e5)| <= 3e-2 S, |Delta(1e6)| <= 3e-3 S;
  (c) decay     a factor >= 5 over two decades (a 1/r law with ln^4 r gives 0.06, measured <= 0.074) in at least one of the windows 1e3 -> 1e5 and 1.1e4 -> 1e6 (floor 1e-5 S): the massive intrinsic
      kernels are round-off limited at r >= 3e5 (noise 5e-5 relative, 15x their reported error), NNLO differences change sign below 1e4.
"""
import itertools
import math

import numpy as np

from .. import cards, rel, yrun
from ..engine import digest

HISTORY_SWEEP = True
ID = "C08"
MASS = {"charm": 1.51, "bottom": 4.92, "top": 172.5}
IHQ = {"charm": 4, "bottom": 5, "top": 6}
PDFS = [(0.5, 2.0, 1.5), (-0.1, 4.0, 0.0), (0.9, 1.5, 3.0)]

RULE = (
    "states = (heavy flavour charm/bottom, NfFF, kind, process, observable h/total, PTO, x); per state 2 x |ladder| real runs (FFNS, FFN0) with Q2 = r m2, r in {1e2,1e3,1.1e4,1e5,1e6}; every order key (k,0,0,0) contracted "
    "with 3 analytic PDFs separately for gluon / light-quark / heavy-quark rows; envelope, absolute smallness at r = 1e5, 1e6 and two-decade decay demanded relative to the ladder maximum of the "
    "cancellation-safe size of the FFNS term; non-trivial = the FFNS term is non-zero somewhere on the ladder and Delta is non-zero at the bottom of the ladder"
)
ASSUMPTIONS = [
    "grid G9; masses 1.51 (charm) and 4.92 (bottom); NfFF = 3 for both flavours (bottom is then not the first flavour above the light ones) and NfFF = 4 for bottom",
    "the O(a_s^2) heavy-quark-loop ('missing') contribution to the light-coupling structure functions is observed through F2_light / FL_light (NC, EM) with NfFF = 5, where the top quark is the only massive flavour, on a ladder in Q2/mt2 (NC F3 is not in the property's quantifier)",
    "projectiles: the canonical one per process for the main lattice; a sub-lattice with positron / antineutrino / charged-lepton CC / neutrino NC and a polarised positron beam (heavy-quark-initiated weights depend on the projectile)",
    "g1 only to O(a_s): LeProHQ raises an explicit ValueError for the high-virtuality limit of x2g1 at O(a_s^2)",
    "differences are discounted by 10x the reported quadrature errors (the massive intrinsic kernels lose accuracy at Q2/m2 >= 1e6: reported error 7e-6 at 1e6, NaN at 1e8, outside the ladder)",
    "consecutive-decade monotonicity is not required (NNLO differences change sign below r = 1e4); the ladder uses r = 1.1e4 instead of exactly 1e4 where LeProHQ switches representation",
    "constants of the oracle carry margins >= 2 over the values measured on the unchanged tree (recorded as measured maxima in the evidence)",
]
BUDGET = {"quick": 1800, "thorough": 10000}
LADDER = [1e2, 1e3, 1.1e4, 1e5, 1e6]


def _states_base(tier, seed):
    out = []
    if tier == "quick":
        xs = [1e-2, 0.1, 0.6]
        combos = []
        for hq, nfff in (("charm", 3), ("bottom", 3), ("bottom", 4)):
            for k, p in (("F2", "NC"), ("FL", "NC"), ("g1", "NC"), ("F2", "CC"), ("FL", "CC"), ("F3", "CC"), ("F2", "EM")):
                for h in ("h",):
                    if nfff == 4 and (k in ("g1",) or p == "EM"):
                        continue
                    combos.append((hq, nfff, k, p, h, 1))
        for c in combos:
            for x in xs:
                out.append(dict(zip(("hq", "nfff", "kind", "process", "obs", "pto"), c), x=x))
        # one O(a_s^2) probe
        out.append({"hq": "charm", "nfff": 3, "kind": "F2", "process": "NC", "obs": "h", "pto": 2, "x": 0.1})
        out.append({"hq": "bottom", "nfff": 3, "kind": "FL", "process": "NC", "obs": "h", "pto": 2, "x": 0.01})
    else:
        xs = [1e-3, 1e-2, 0.1, 0.3, 0.6]
        for hq, nfff in (("charm", 3), ("bottom", 3), ("bottom", 4)):
            for k, p in (("F2", "NC"), ("FL", "NC"), ("g1", "NC"), ("F2", "CC"), ("FL", "CC"), ("F3", "CC"), ("F2", "EM"), ("FL", "EM"), ("g1", "EM")):
                for h in ("h",):
                    for pto in (1, 2):
                        if k == "g1" and pto == 2:
                            continue
                        if p == "CC" and pto == 2:
                            continue  # CC heavy known to O(a_s)
                        for x in (xs if pto == 1 else [1e-2, 0.1, 0.6]):
                            out.append({"hq": hq, "nfff": nfff, "kind": k, "process": p, "obs": h, "pto": pto, "x": x})
    return out


class _P:
    def __init__(self, abc):
        self.abc = abc

    def xf(self, pid, x):
        a, b, c = self.abc
        n = {21: 2.0, 22: 0.0}.get(pid, 0.3 + 0.1 * (abs(pid) % 3) + (0.25 if pid > 0 else 0.0))
        if abs(pid) >= 4 and pid != 21:
            n *= 0.3
        return n * x**a * (1 - x) ** b * (1 + c * x) if x < 1 else 0.0


def _v(st, what, msg, **kw):
    fp = dict(st, cls=what, **kw)
    return {"fp": fp, "fpkey": {"cls": what, "hq": st["hq"], "nfff": st["nfff"], "kind": st["kind"], "process": st["process"], "obs": st["obs"]}, "msg": msg}


def _states_evol(seed):
    out = []
    for hq, nfff in (("charm", 3), ("bottom", 3)):
        for k, p in (("F2", "NC"), ("FL", "NC"), ("F2", "CC"), ("F3", "CC"), ("g1", "EM")):
            for x in (1e-2, 0.3):
                out.append({"hq": hq, "nfff": nfff, "kind": k, "process": p, "obs": "h", "pto": 1, "pto_evol": 2, "x": x})
    return out


def _states_proj(seed):
    """non-canonical projectiles (anti-leptons, charged lepton CC, neutrino NC) and a polarised beam: the heavy-quark-initiated weights depend on them."""
    out = []
    for hq, nfff in (("charm", 3), ("bottom", 4)):
        for k, p, projs in (("F2", "CC", ["electron", "positron", "antineutrino"]), ("F3", "CC", ["electron", "positron", "antineutrino"]), ("FL", "CC", ["antineutrino"]), ("F2", "NC", ["positron", "neutrino"]), ("F3", "NC", ["electron", "positron", "antineutrino"])):
            for proj in projs:
                for x in (1e-2, 0.3):
                    out.append({"hq": hq, "nfff": nfff, "kind": k, "process": p, "obs": "h", "pto": 1, "x": x, "projectile": proj})
    for k in ("F2", "F3"):
        out.append({"hq": "charm", "nfff": 3, "kind": k, "process": "NC", "obs": "h", "pto": 1, "x": 0.1, "projectile": "positron", "obscard": {"PolarizationDIS": 0.7}})
    return out


def _states_missing(seed):
    """heavy-quark loops in the light-quark-coupling structure functions (the O(a_s^2) 'missing' channel): observable *_light with NfFF = 5, so that the top quark is
    the only massive flavour and the ladder in Q2/mt2 isolates one heavy-quark contribution; every light-quark row must reach its asymptotic counterpart."""
    out = []
    for k, p, x in itertools.product(["F2", "FL"], ["EM", "NC"], [1e-2, 0.1, 0.6]):
        out.append({"hq": "top", "nfff": 5, "kind": k, "process": p, "obs": "light", "pto": 2, "x": x})
    # CC at O(a_s^2): no massive CC heavy-quark coefficient exists at this order, so the asymptotic scheme must not have one either (both sides 0)
    for k, proj in itertools.product(["F2", "FL", "F3"], ["neutrino", "positron"]):
        out.append({"hq": "charm", "nfff": 3, "kind": k, "process": "CC", "obs": "h", "pto": 2, "x": 0.1, "projectile": proj})
    return out


def states(tier, seed):
    """quick = the full base lattice; thorough = base lattice + the deep extension."""
    base = _states_base("thorough", seed) + _states_evol(seed) + _states_proj(seed) + _states_missing(seed)
    if tier == "quick":
        return base
    seen = {digest(s) for s in base}
    return base + [s for s in _states_deep(seed) if digest(s) not in seen]


def _states_deep(seed):
    out = []
    for hq, nfff in (("charm", 3), ("bottom", 3), ("bottom", 4)):
        for k, p in (("F2", "NC"), ("FL", "NC"), ("g1", "NC"), ("F2", "CC"), ("FL", "CC"), ("F3", "CC"), ("F2", "EM"), ("FL", "EM"), ("g1", "EM")):
            for x in (1e-3, 3e-3, 1e-2, 0.03, 0.1, 0.2, 0.3, 0.45, 0.6, 0.8):
                out.append({"hq": hq, "nfff": nfff, "kind": k, "process": p, "obs": "h", "pto": 1, "x": x})
    return out


def execute(st):
    yrun.reset_memos()
    m = MASS[st["hq"]]
    ihq = IHQ[st["hq"]]
    h = st["hq"] if st["obs"] == "h" else st["obs"]  # "light": the heavy-quark-loop ("missing") contribution to the light-quark-coupling structure function
    name = cards.obsname(st["kind"], h)
    g = cards.GRIDS["G9"][0]
    runs = {}
    for sch in ("FFNS", "FFN0"):
        c = {"scheme": f"{sch if sch == 'FFNS' else 'FFN0'}{st['nfff']}", "process": st["process"], "pto": st["pto"], "grid": "G9", "theory": {"RenScaleVar": False, "FactScaleVar": False}}
        for kk in ("projectile", "obscard"):
            if kk in st:
                c[kk] = st[kk]
        if "pto_evol" in st:
            # evolution order above the DIS order: more asymptotic log towers are instantiated, the limit must be unchanged order by order
            c["pto"], c["ptodis"] = st["pto_evol"], st["pto"]
        out, s = rel.try_run(c, {name: [cards.kin(st["x"], r * m * m) for r in LADDER]})
        if s != "ok":
            return {"violations": [], "nontrivial": False, "outcome": f"{sch}:{s}", "transitions": 1, "info": {"n_" + s.split(":")[0]: 1}}
        runs[sch] = out
    groups = {"gluon": [yrun.PIDX[21]], "light": [yrun.PIDX[p] for p in yrun.PIDS if p not in (21, 22) and abs(p) <= st["nfff"]], "heavy": [yrun.PIDX[p] for p in yrun.PIDS if p not in (21, 22) and abs(p) > st["nfff"]]}
    viol = []
    info = {}
    nontrivial = False
    for abc in PDFS:
        pdf = _P(abc)
        f = np.array([[pdf.xf(pid, x) / x for x in g] for pid in yrun.PIDS])
        for o in range(st["pto"] + 1):
            for gname, rows in groups.items():
                D, S = [], []
                for i, r in enumerate(LADDER):
                    a = yrun.tensors(runs["FFNS"][name][i])[(o, 0, 0, 0)][0][rows]
                    b = yrun.tensors(runs["FFN0"][name][i])[(o, 0, 0, 0)][0][rows]
                    if not (np.all(np.isfinite(a)) and np.all(np.isfinite(b))):
                        D = None
                        break
                    ea = yrun.tensors(runs["FFNS"][name][i])[(o, 0, 0, 0)][1][rows]
                    eb = yrun.tensors(runs["FFN0"][name][i])[(o, 0, 0, 0)][1][rows]
                    qe = 10.0 * float(np.sum((np.abs(ea) + np.abs(eb)) * np.abs(f[rows])))
                    d = float(np.sum((a - b) * f[rows]))
                    # the massive intrinsic kernels lose accuracy at very high Q2/m2: discount the reported quadrature errors
                    D.append(math.copysign(max(0.0, abs(d) - qe), d))
                    S.append(float(np.sum(np.abs(a) * np.abs(f[rows]))) + float(np.sum(np.abs(b) * np.abs(f[rows]))))
                if D is None:
                    continue
                Smax = max(S)
                if Smax == 0:
                    continue
                if abs(D[0]) > 1e-9 * Smax:
                    nontrivial = True
                desc = f"{name} {st['process']} NfFF={st['nfff']} order {o} x={st['x']} rows={gname} pdf={abc}"
                env = max(abs(D[i]) / (Smax * (1 + math.log(r)) ** 3 / r) for i, r in enumerate(LADDER))
                info["envelope"] = max(info.get("envelope", 0.0), env)
                info["small_1e5"] = max(info.get("small_1e5", 0.0), abs(D[3]) / Smax)
                info["small_1e6"] = max(info.get("small_1e6", 0.0), abs(D[4]) / Smax)
                fl = 1e-5 * Smax
                dec = min(abs(D[3]) / max(abs(D[1]), fl), abs(D[4]) / max(abs(D[2]), fl))
                info["decay"] = max(info.get("decay", 0.0), dec)
                if env > 3.0:
                    i = int(np.argmax([abs(D[i]) / (Smax * (1 + math.log(r)) ** 3 / r) for i, r in enumerate(LADDER)]))
                    viol.append(_v(st, "envelope", f"{desc}: |FFNS-FFN0| = {abs(D[i]):.3e} at Q2/m2={LADDER[i]:.0e} exceeds 3 S (1+ln r)^3/r (S={Smax:.3e}); ladder {['%.2e' % d for d in D]}", order=o, rows=gname))
                if abs(D[3]) > 3e-2 * Smax or abs(D[4]) > 3e-3 * Smax:
                    viol.append(_v(st, "not-small", f"{desc}: FFNS-FFN0 does not vanish at high virtuality: {abs(D[3])/Smax:.2e} S at 1e5, {abs(D[4])/Smax:.2e} S at 1e6; ladder {['%.2e' % d for d in D]} (S={Smax:.3e})", order=o, rows=gname))
                if dec > 0.2:
                    viol.append(_v(st, "no-decay", f"{desc}: FFNS-FFN0 does not fall by a factor 5 over two decades in either window: 1e3 -> 1e5: {abs(D[1]):.3e} -> {abs(D[3]):.3e}; 1.1e4 -> 1e6: {abs(D[2]):.3e} -> {abs(D[4]):.3e} (S={Smax:.3e})", order=o, rows=gname))
    seen, uv = set(), []
    for v_ in viol:
        if v_["fpkey"]["cls"] not in seen:
            seen.add(v_["fpkey"]["cls"])
            uv.append(v_)
    return {"violations": uv[:3], "nontrivial": nontrivial, "outcome": yrun.out_digest(runs["FFNS"]) + yrun.out_digest(runs["FFN0"]), "transitions": 2 * len(LADDER), "sub": 1, "info": info}


LEVEL_TEXT = (
    "Bounded-exhaustive enumeration of (heavy flavour x NfFF x kind x process x observable x PTO x x) cells; per cell the massive and the asymptotic calculation are executed on the real code along a five-point ladder in Q2/m2 from 1e2 to 1e6, "
    "and the difference of every perturbative order, contracted with three analytic PDFs separately for the gluon, light-quark and heavy-quark rows, must stay inside a power-times-logs envelope, be absolutely small at the top of the ladder and fall "
    "over the last two decades - relative to the cancellation-safe ladder maximum of the massive term."
    " All four beams (incl. anti-leptons, charged-lepton CC, neutrino NC) and a polarised beam are in the lattice."
)
LEVEL_NOTE = "Asymptotic property checked on a finite ladder with calibrated constants (margins >= 2 over the measured values); LeProHQ and adani values are taken as given. x, masses and grids outside the lattice are not covered."
TECHNIQUE = "bounded-exhaustive enumeration of cells x Q2/m2 ladders with a differential (FFNS vs FFN0) decay oracle"
