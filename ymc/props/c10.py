"""C10 — target-mass-corrected results equal the published formulas.

Per state (kind, heavyness, process, PTO, M, Q2, grid): one raw (TMC=0) run giving the uncorrected operators at all nodes and at every
Nachtmann xi(x), and one run per TMC mode 1,2,3 at all x of the lattice; every order key of every TMC operator is compared with the
reference combination (ref_tmc: published prefactors, node weights by reference quadrature on the reference basis).
Also: continuity for M -> 0, and rejection (ValueError) when xi falls below the grid.
"""
import itertools
import math

import numpy as np

from .. import cards, rel, yrun
from ..engine import digest
from ..ref import ref_basis, ref_tmc

HISTORY_SWEEP = True
HISTORY_SWEEP_PER_PROCESS = 5  # each state already consists of several real runs
ID = "C10"
RTOL = 5e-7
NEEDS = {"F2": ["F2"], "FL": ["FL", "F2"], "F3": ["F3"], "g1": ["g1"]}

RULE = (
    "states = (kind, heavyness, process, PTO, M, Q2, grid); per state: one TMC=0 run (operators at every node and every xi(x)) and one run per TMC mode (1 APFEL, 2 approximate, 3 exact) with the whole x lattice: "
    "nodes, node(1+1e-9), x with xi(x) = node(1±1e-9), block mid-points, large x (0.9, 0.999, 1), xmin-adjacent points whose xi leaves the grid (must raise ValueError); every order key compared with the reference formula, "
    "|delta| <= 5e-7*sum|terms| + 20*quadrature errors (measured 4.2e-8); M=0 must reproduce the raw result, M=1e-4 within 1e-6; non-trivial = M>0, the integral terms contribute and the operator is non-zero"
)
ASSUMPTIONS = [
    "kinds F2, FL, xF3, 2x g1 as defined in docs/theory/intro.rst; formulas of Schienbein et al. (F2, FL, F3) and Bluemlein-Tkabladze/Accardi-Melnitchouk (g1); mode 2 = published approximate formulas for F2, xF3 and lower-end evaluation of the integrands for FL, g1",
    "at operator level a structure function between nodes is its node values interpolated with the basis (this is the discretisation the operator format implies); node weights by reference quadrature on the reference basis",
    "grids G9 (log, degree 3) and L7 (linear, degree 2); M in {0, 1e-4, 0.938, 2.5}; Q2 in {2, 4, 30, 1e3}",
    "scale variations off in the main lattice; an options sub-lattice keeps them on (all scale-variation keys compared) and uses positron / neutrino NC / antineutrino / positron CC beams, polarisation, iron and fractional targets",
    "gL, g4 have no TMC (explicit NotImplementedError since fix e64a7f73) and polarised CC does not exist: not part of the lattice",
]
BUDGET = {"quick": 1500, "thorough": 7200}


def states(tier, seed):
    out = []
    if tier == "quick":
        for k, p, pto, q2 in itertools.product(["F2", "FL", "F3", "g1"], ["NC", "CC"], [0, 1], [2.0, 30.0]):
            if k == "g1" and p == "CC":
                continue
            out.append({"kind": k, "heavyness": "total", "process": p, "scheme": "ZM-VFNS", "pto": pto, "M": 0.938, "Q2": q2, "grid": "G9"})
        for k in ["F2", "FL", "F3", "g1"]:
            out.append({"kind": k, "heavyness": "total", "process": "NC", "scheme": "ZM-VFNS", "pto": 1, "M": 0.0, "Q2": 4.0, "grid": "G9"})
            out.append({"kind": k, "heavyness": "total", "process": "NC", "scheme": "ZM-VFNS", "pto": 1, "M": 1e-4, "Q2": 4.0, "grid": "G9"})
            out.append({"kind": k, "heavyness": "light", "process": "EM", "scheme": "FFNS3", "pto": 1, "M": 2.5, "Q2": 4.0, "grid": "L7"})
            out.append({"kind": k, "heavyness": "charm", "process": "NC", "scheme": "FFNS3", "pto": 1, "M": 0.938, "Q2": 30.0, "grid": "G9"})
    else:
        for k, h, p, pto, M, q2, g in itertools.product(["F2", "FL", "F3", "g1"], ["total", "light", "charm"], ["EM", "NC", "CC"], [0, 1], [0.0, 1e-4, 0.938, 2.5], [2.0, 4.0, 30.0, 1e3], ["G9", "L7"]):
            if k == "g1" and p == "CC":
                continue
            if g == "L7" and (h == "charm" or q2 in (2.0, 1e3) or M in (0.0, 1e-4)):
                continue
            sc = "FFNS3" if h == "charm" else "ZM-VFNS"
            out.append({"kind": k, "heavyness": h, "process": p, "scheme": sc, "pto": pto, "M": M, "Q2": q2, "grid": g})
        for k, p in itertools.product(["F2", "FL", "F3", "g1"], ["NC"]):
            out.append({"kind": k, "heavyness": "total", "process": p, "scheme": "ZM-VFNS", "pto": 2, "M": 0.938, "Q2": 4.0, "grid": "G9"})
    # combinations: leading order in schemes with massive quarks (FL is non-zero at LO there: intrinsic channel, CC heavy-quark production), FONLL, scale variations on
    for k in ["F2", "FL", "F3", "g1"]:
        out.append({"kind": k, "heavyness": "charm", "process": "NC", "scheme": "FFNS3", "pto": 0, "M": 0.938, "Q2": 6.0, "grid": "G9"})
        out.append({"kind": k, "heavyness": "total", "process": "EM" if k != "F3" else "NC", "scheme": "FONLL-FFNS4", "pto": 0, "M": 0.938, "Q2": 30.0, "grid": "G9", "sv": True})
        if k != "g1":
            out.append({"kind": k, "heavyness": "total", "process": "CC", "scheme": "FFNS3", "pto": 0, "M": 0.938, "Q2": 6.0, "grid": "G9"})
            out.append({"kind": k, "heavyness": "bottom", "process": "CC", "scheme": "FFNS4", "pto": 1, "ptodis": 0, "M": 1.5, "Q2": 30.0, "grid": "G9", "projectile": "antineutrino"})
    # options: scale-variation keys kept (every order key must obey the formula), non-canonical projectiles, polarised beam, nuclear target
    for k in ["F2", "FL", "F3", "g1"]:
        out.append({"kind": k, "heavyness": "total", "process": "NC", "scheme": "ZM-VFNS", "pto": 1, "M": 0.938, "Q2": 4.0, "grid": "G9", "sv": True, "projectile": "positron", "obscard": {"PolarizationDIS": -0.6, "PropagatorCorrection": 0.05}})
        out.append({"kind": k, "heavyness": "charm", "process": "NC", "scheme": "FFNS3", "pto": 1, "M": 1.5, "Q2": 30.0, "grid": "G9", "projectile": "neutrino", "target": "iron"})
        if k != "g1":
            out.append({"kind": k, "heavyness": "total", "process": "CC", "scheme": "ZM-VFNS", "pto": 1, "M": 0.938, "Q2": 4.0, "grid": "G9", "sv": True, "projectile": "antineutrino", "target": "iron"})
            out.append({"kind": k, "heavyness": "light", "process": "CC", "scheme": "FFNS3", "pto": 0, "M": 2.5, "Q2": 4.0, "grid": "L7", "projectile": "positron", "target": {"Z": 0.3, "A": 1.0}})
    return out


def xlattice(st):
    g, d, lg = cards.grid(st["grid"])
    M, q2 = st["M"], st["Q2"]
    pts = []
    nodes = g[:-1]
    big = [v for v in g if v >= 0.05]
    for v in nodes[1:]:
        pts.append(("node", v))
    for v in big[:-1]:
        pts.append(("node+", v * (1 + 1e-9)))
        for s, lab in ((1 - 1e-9, "xi=node-"), (1 + 1e-9, "xi=node+")):
            mu = M * M / q2
            if mu * (v * s) ** 2 < 0.9:
                x = ref_tmc.x_of_xi(v * s, q2, M)
                if x < 1.0:
                    pts.append((lab, x))
    for a, b in zip(g[:-1], g[1:]):
        pts.append(("mid", math.sqrt(a * b) if lg else 0.5 * (a + b)))
    pts += [("0.9", 0.9), ("0.999", 0.999), ("one", 1.0)]
    good, rejected = [], []
    seen = set()
    for lab, x in pts:
        if x in seen:
            continue
        seen.add(x)
        _, _, xi = ref_tmc.kin(x, q2, M)
        if xi < g[0]:
            rejected.append((lab, x))
        else:
            good.append((lab, x))
    # points whose xi leaves the grid although x is inside
    if M > 0:
        xr = g[0] * (1.0 + 0.5 * (M * M / q2) * g[0] ** 2)
        if xr >= g[0] and ref_tmc.kin(xr, q2, M)[2] < g[0]:
            rejected.append(("xmin+", xr))
    return good, rejected


def _v(st, what, mode, msg):
    fp = dict(st, cls=what, mode=mode)
    return {"fp": fp, "fpkey": {"cls": what, "kind": st["kind"], "mode": mode, "process": st["process"], "heavyness": st["heavyness"]}, "msg": msg}


def execute(st):
    yrun.reset_memos()
    kind, h = st["kind"], st["heavyness"]
    g, d, lg = cards.grid(st["grid"])
    basis = ref_basis.RefBasis(g, d, lg)
    good, rejected = xlattice(st)
    name = cards.obsname(kind, h)
    sv = bool(st.get("sv"))
    base = {"scheme": st["scheme"], "process": st["process"], "pto": st["pto"], "grid": st["grid"], "theory": {"MP": st["M"], "RenScaleVar": sv, "FactScaleVar": sv}}
    for kk in ("projectile", "target", "obscard", "ptodis"):
        if kk in st:
            base[kk] = st[kk]
    # raw run: all needed kinds at nodes and at xi(x)
    xis = [ref_tmc.kin(x, st["Q2"], st["M"])[2] for _, x in good]
    rawpts = list(g) + xis
    raw, s0 = rel.try_run(dict(base, tmc=0), {cards.obsname(k, h): [cards.kin(x, st["Q2"]) for x in rawpts] for k in NEEDS[kind]})
    if s0 != "ok":
        return {"violations": [], "nontrivial": False, "outcome": s0, "transitions": 1, "info": {"n_" + s0.split(":")[0]: 1}}
    viol = []
    nontrivial = False
    worst = {1: 0.0, 2: 0.0, 3: 0.0}
    ncmp = 0
    digs = []
    for mode in (1, 2, 3):
        out, s1 = rel.try_run(dict(base, tmc=mode), {name: [cards.kin(x, st["Q2"]) for _, x in good]})
        if s1 != "ok":
            viol.append(_v(st, "tmc-run-failed", mode, f"{name} TMC={mode} {st['process']} M={st['M']} Q2={st['Q2']} grid={st['grid']}: run failed ({s1}) although every xi is inside the grid"))
            continue
        digs.append(yrun.out_digest(out))
        for i, (lab, x) in enumerate(good):
            res = out[name][i]
            if float(res.x) != x or float(res.Q2) != st["Q2"]:
                viol.append(_v(st, "kinematics", mode, f"{name} TMC={mode}: result reports x={res.x}, Q2={res.Q2} for the request x={x}, Q2={st['Q2']}"))
                continue
            T = yrun.tensors(res)
            for o in sorted(T):
                val, err = T[o]
                raw_at_xi = {k: yrun.tensors(raw[cards.obsname(k, h)][len(g) + i])[o][0] for k in NEEDS[kind]}
                raw_err = sum(np.abs(yrun.tensors(raw[cards.obsname(k, h)][len(g) + i])[o][1]) for k in NEEDS[kind])
                raw_nodes = {k: [yrun.tensors(raw[cards.obsname(k, h)][j])[o][0] for j in range(len(g))] for k in NEEDS[kind]}
                if not all(np.all(np.isfinite(a)) for a in raw_at_xi.values()):
                    continue
                pred, scale = ref_tmc.predict(kind, mode, x, st["Q2"], st["M"], basis, raw_at_xi, raw_nodes)
                sc = scale + np.abs(val)
                gmax = sc.max() if sc.size else 0.0
                tol = RTOL * (sc + gmax) + 20 * (err + 10 * raw_err) + 1e-300
                dlt = np.abs(val - pred)
                ncmp += 1
                if gmax > 0:
                    worst[mode] = max(worst[mode], float((dlt / (sc + gmax)).max()))
                    if st["M"] > 0 and mode != 2:
                        nontrivial = True
                if np.any(dlt > tol):
                    idx = np.unravel_index(np.argmax(dlt - tol), dlt.shape)
                    viol.append(_v(st, "formula", mode, f"{name} TMC mode {mode} {st['process']} {st['scheme']} pto={st['pto']} M={st['M']} Q2={st['Q2']} grid={st['grid']} x={x!r} ({lab}): order {o} operator[pid {yrun.PIDS[idx[0]]}, j={idx[1]}] = {val[idx]:.10g}, published formula on the uncorrected operators gives {pred[idx]:.10g} (rel {dlt[idx]/(sc[idx]+gmax):.2e})"))
                    break
                # M -> 0 continuity: compare with the raw operator at x (= xi up to O(M^2))
                if st["M"] <= 1e-4:
                    d0 = np.abs(val - raw_at_xi[kind])
                    # size of the uncorrected operators anywhere on the grid (the O(M^2) terms are integrals over them)
                    gall = max([float(np.max(np.abs(a))) for a in raw_at_xi.values()] + [float(np.max(np.abs(t))) for ts in raw_nodes.values() for t in ts])
                    lim = (1e-15 if st["M"] == 0.0 else 1e-6) * (np.abs(val) + gmax + gall)
                    if np.any(d0 > lim):
                        viol.append(_v(st, "continuity", mode, f"{name} TMC mode {mode} M={st['M']}: corrected operator differs from the uncorrected one by {d0.max():.3e} at x={x}"))
                        break
        # rejection
        for lab, x in rejected:
            try:
                yrun.run(dict(base, tmc=mode), {name: [cards.kin(x, st["Q2"])]})
            except ValueError as e:
                if "grid" not in str(e):
                    viol.append(_v(st, "rejection-message", mode, f"{name} TMC={mode} x={x!r} ({lab}): xi below the grid raised ValueError without mentioning the grid: {e}"))
            except Exception as e:
                viol.append(_v(st, "rejection-exception", mode, f"{name} TMC={mode} x={x!r} ({lab}): xi below the grid raised {type(e).__name__}: {e}"))
            else:
                viol.append(_v(st, "not-rejected", mode, f"{name} TMC={mode} x={x!r} ({lab}): xi = {ref_tmc.kin(x, st['Q2'], st['M'])[2]!r} is below the grid minimum {g[0]} but the request was accepted"))
    seen, uv = set(), []
    for v_ in viol:
        k = digest(v_["fpkey"])
        if k not in seen:
            seen.add(k)
            uv.append(v_)
    return {"violations": uv[:4], "nontrivial": nontrivial, "outcome": digest(digs), "transitions": 4 + 3 * len(rejected), "sub": max(1, ncmp), "info": {"maxrel_mode1": worst[1], "maxrel_mode2": worst[2], "maxrel_mode3": worst[3], "n_rejection_probes": 3 * len(rejected)}}


LEVEL_TEXT = (
    "Bounded-exhaustive model checking with reference-model conformance: for every cell (kind x heavyness x process x PTO x M x Q2 x grid) and every TMC mode the corrected operator is computed by the real code on an x lattice "
    "built from the grid's own shortcuts (nodes, node(1+1e-9), x whose Nachtmann xi sits 1e-9 on either side of a node, block interiors, x -> 1) and every order key is compared with the published formula evaluated by an independent "
    "reference on the uncorrected operators of a TMC=0 run (node weights of the h2, g2, h3, k1, k2 integrals by reference quadrature on the reference basis); M=0 and M=1e-4 probe continuity, and requests whose xi leaves the grid must raise ValueError."
    " An options sub-lattice keeps the scale-variation keys (every order key must obey the formula) and uses anti-lepton beams, polarisation and nuclear targets."
)
LEVEL_NOTE = (
    "Trusted: ref_tmc (my transcription of the published formulas for the library's normalised kinds), ref_basis, SciPy quad; the uncorrected operators are taken from a TMC=0 run of the same code (C01 decides those). "
    "Other masses, Q2, grids and PTO>=2 (thorough has one PTO 2 slice) are not covered."
)
TECHNIQUE = "bounded-exhaustive enumeration of cells x modes x lattice points with conformance to an executable reference of the published formulas (differential against the uncorrected run)"
