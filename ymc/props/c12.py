"""C12 — nuclear target is an isospin rotation of up and down.

Relation explorer between two public runs (target T and proton) of the same cell:
  O_T[±1] = (Z O_p[±1] + (A-Z) O_p[±2]) / A,  O_T[±2] = (Z O_p[±2] + (A-Z) O_p[±1]) / A,
all other rows bit-identical. Named targets must be bit-identical to their documented (Z,A) dict.
"""
import itertools

import numpy as np

from .. import cards, rel, yrun
from ..engine import digest

HISTORY_SWEEP = True
HISTORY_SWEEP_PER_PROCESS = 5  # each state already consists of several real runs
ID = "C12"
SF_KINDS = ["F2", "FL", "F3", "g1", "gL", "g4"]
TARGETS = [(0.0, 1.0), (1.0, 2.0), (23.403, 49.618), (82.0, 208.0), (0.3, 1.0), (2.0, 3.0), (1.0, 1.0)]
# documented (docs/source/theory/misc.rst, citations in input/compatibility.py)
NAMED = {
    "proton": (1.0, 1.0),
    "neutron": (0.0, 1.0),
    "isoscalar": (1.0, 2.0),
    "iron": (23.403, 49.618),
    "lead": (82.0, 208.0),
    "neon": (10.0, 20.0),
    "marble": ((20 + 3 * 8 + 6) / 5, (40 + 3 * 16 + 12) / 5),
}
XS = [0.01, 0.0316227766, 0.3 * (1 + 1e-9)]
RTOL = 1e-13
I1, I2, IM1, IM2 = yrun.PIDX[1], yrun.PIDX[2], yrun.PIDX[-1], yrun.PIDX[-2]

RULE = (
    "states = (mode rotation/named/unknown, kind, heavyness, process, scheme, PTO, Q2, target); a rotation state performs the real run for the target and for the proton "
    "(same cell, 3 x points) and checks the d/u (dbar/ubar) rows against the (Z,A) mixture of the proton rows and all other rows against the proton rows, for every order key, |delta| <= 1e-13*(|terms| + largest entry of the tensor) (scale-variation keys are rotated through flavour projectors, so bit-identity is not demanded); "
    "named states compare the run with the name against the run with the documented explicit dict bit-for-bit; non-trivial = Z/A not in {1/2,1} and the proton d and u rows differ"
)
ASSUMPTIONS = [
    "grid G6, 3 x points, Q2 in {4,30(,1e4)}; targets (Z,A) in {(0,1),(1,2),(23.403,49.618),(82,208),(0.3,1),(2,3),(1,1)} and all seven named targets",
    "a sub-lattice crosses the rotation with non-canonical projectiles (positron, antineutrino, charged-lepton CC, neutrino NC), TMC mode 1, a polarised beam with propagator correction, and five cross-section kinds (PTO 1, two targets)",
    "the proton run is the reference (relation between two public runs); kernels are not inspected",
    "runs that are explicitly rejected (polarised CC) make the state trivial; other exceptions are C16's business (counted as blocked)",
]
BUDGET = {"quick": 1200, "thorough": 5400}


def states(tier, seed):
    out = []
    if tier == "quick":
        cells = itertools.product(SF_KINDS, ["total", "light", "charm"], ["EM", "NC", "CC"], ["ZM-VFNS", "FFNS3", "FFN03"], [0, 1], [30.0])
        tg = [(0.0, 1.0), (23.403, 49.618), (0.3, 1.0)]
    else:
        cells = itertools.product(SF_KINDS, ["total", "light", "charm", "bottom"], ["EM", "NC", "CC"], ["ZM-VFNS", "FFNS3", "FFNS4", "FFN03", "FFN04", "FONLL-FFNS3", "FONLL-FFN03"], [0, 1, 2], [4.0, 30.0, 1e4])
        tg = TARGETS
    for k, h, p, sc, pto, q2 in cells:
        if tier == "thorough" and pto == 2 and q2 != 30.0:
            continue
        for z, a in tg:
            if tier == "thorough" and pto == 2 and (z, a) not in ((23.403, 49.618), (0.3, 1.0), (0.0, 1.0)):
                continue
            out.append({"mode": "rotation", "kind": k, "heavyness": h, "process": p, "scheme": sc, "pto": pto, "Q2": q2, "Z": z, "A": a})
    if tier == "quick":
        # PTO 2: light kernels and the asymptotic 'missing' pieces (one kernel object per log tower)
        for k, p, sc in itertools.product(["F2", "FL", "F3", "g1"], ["NC", "CC"], ["ZM-VFNS", "FFN03", "FONLL-FFN03"]):
            out.append({"mode": "rotation", "kind": k, "heavyness": "light", "process": p, "scheme": sc, "pto": 2, "Q2": 30.0, "Z": 82.0, "A": 208.0})
    # O(a_s^3): the fl11 flavour class has its own weights (e_q times the flavour trace of the coupling), n_f = 4 and 5
    for k, h, p, q2, (z, a) in itertools.product(["F2", "FL", "F3"], ["light", "total"], ["EM", "NC", "CC"], [10.0, 30.0], [(23.403, 49.618), (0.3, 1.0)]):
        if tier == "quick" and (q2 == 10.0) != (p == "EM"):
            continue
        out.append({"mode": "rotation", "kind": k, "heavyness": h, "process": p, "scheme": "ZM-VFNS", "pto": 3, "Q2": q2, "Z": z, "A": a})
    # options the rotation must commute with: non-canonical projectiles, target-mass corrections, polarised beam + propagator correction, cross sections
    for (k, p, proj), h, sc, (z, a) in itertools.product(
        [("F2", "NC", "positron"), ("F3", "NC", "positron"), ("F2", "CC", "antineutrino"), ("F3", "CC", "antineutrino"), ("FL", "CC", "electron"), ("F3", "CC", "positron"), ("F2", "NC", "neutrino"), ("g1", "NC", "positron")],
        ["total", "charm"], ["ZM-VFNS", "FFNS3"], [(23.403, 49.618), (0.3, 1.0)],
    ):
        for extra in ({}, {"tmc": 1}, {"obscard": {"PolarizationDIS": -0.6, "PropagatorCorrection": 0.05}}):
            if extra.get("tmc") and (sc == "FFNS3" and h == "charm" and k == "g1"):
                continue
            out.append(dict({"mode": "rotation", "kind": k, "heavyness": h, "process": p, "scheme": sc, "pto": 1, "Q2": 30.0, "Z": z, "A": a, "projectile": proj}, **extra))
    for k, p, proj in [("XSHERANC", "NC", "positron"), ("XSCHORUSCC", "CC", "antineutrino"), ("XSNUTEVNU", "CC", "neutrino"), ("XSHERACC", "CC", "electron"), ("g5", "NC", "electron")]:
        for sc, tmc in itertools.product(["ZM-VFNS", "FFNS3"], [0, 1]):
            out.append({"mode": "rotation", "kind": k, "heavyness": "total", "process": p, "scheme": sc, "pto": 1, "Q2": 30.0, "Z": 23.403, "A": 49.618, "projectile": proj, "tmc": tmc, "y": 0.4})
    # combinations (each harmless alone): PTO 2 + TMC + anti-lepton beam + polarisation, massive and FONLL schemes, scale variations off
    for (k, p, proj), sc in itertools.product([("F2", "NC", "positron"), ("F3", "CC", "antineutrino"), ("g1", "NC", "positron"), ("FL", "CC", "positron")], ["ZM-VFNS", "FFNS3", "FONLL-FFNS4", "FFN03"]):
        if sc == "FFN03" and k in ("g1",):
            continue
        st = {"mode": "rotation", "kind": k, "heavyness": "total", "process": p, "scheme": sc, "pto": 2 if sc in ("ZM-VFNS", "FFNS3") else 1, "Q2": 30.0, "Z": 23.403, "A": 49.618, "projectile": proj, "tmc": 1, "obscard": {"PolarizationDIS": 0.7, "PropagatorCorrection": 0.05}}
        out.append(st)
        out.append(dict(st, tmc=3, Z=0.3, A=1.0, heavyness="charm" if sc != "ZM-VFNS" else "light"))
    for name in NAMED:
        for k, p, sc in itertools.product(["F2", "F3"], ["NC", "CC"], ["ZM-VFNS", "FFNS3"]):
            out.append({"mode": "named", "kind": k, "heavyness": "total", "process": p, "scheme": sc, "pto": 1, "Q2": 30.0, "name": name})
    for name in ("Proton", "deuteron", "", "iron56", "carbon"):
        out.append({"mode": "unknown", "kind": "F2", "heavyness": "total", "process": "NC", "scheme": "ZM-VFNS", "pto": 0, "Q2": 30.0, "name": name})
    return out


def _run(st, target):
    c = {k: st[k] for k in ("process", "scheme", "pto", "projectile", "tmc", "obscard") if k in st}
    c["target"] = target
    name = cards.obsname(st["kind"], st["heavyness"])
    return rel.try_run(c, {name: [cards.kin(x, st["Q2"], st.get("y")) for x in XS]}), name


def _triv(status, n=1):
    return {"violations": [], "nontrivial": False, "outcome": status, "transitions": n, "info": {"n_" + status.split(":")[0]: 1}}


def _v(st, what, msg):
    fp = dict(st, cls=what)
    return {"fp": fp, "fpkey": {"cls": what, "kind": st["kind"], "heavyness": st["heavyness"], "process": st["process"], "scheme": st["scheme"], "pto": st["pto"]}, "msg": msg}


def execute(st):
    yrun.reset_memos()
    if st["mode"] == "unknown":
        c = {k: st[k] for k in ("process", "scheme", "pto")}
        c["target"] = st["name"]
        name = cards.obsname(st["kind"], st["heavyness"])
        try:
            yrun.run(c, {name: [cards.kin(0.1, st["Q2"])]})
        except ValueError as e:
            return {"violations": [], "nontrivial": True, "outcome": "ValueError", "transitions": 1}
        except Exception as e:
            return {"violations": [_v(st, "unknown-target-exception", f"unknown target name {st['name']!r} raised {type(e).__name__} instead of ValueError: {e}")], "nontrivial": True, "outcome": type(e).__name__, "transitions": 1}
        return {"violations": [_v(st, "unknown-target-accepted", f"unknown target name {st['name']!r} was accepted")], "nontrivial": True, "outcome": "accepted", "transitions": 1}
    if st["mode"] == "named":
        (o1, s1), name = _run(st, st["name"])
        z, a = NAMED[st["name"]]
        (o2, s2), _ = _run(st, {"Z": z, "A": a})
        if s1 != "ok" or s2 != "ok":
            if s1 != s2:
                return {"violations": [_v(st, "named-status", f"named target {st['name']}: run with the name is '{s1}', with the documented dict (Z={z},A={a}) '{s2}'")], "nontrivial": True, "outcome": s1 + s2, "transitions": 2}
            return _triv(s1, 2)
        viol = []
        for i in range(len(XS)):
            ok, why = rel.bit_identical(yrun.tensors(o1[name][i]), yrun.tensors(o2[name][i]))
            if not ok:
                viol.append(_v(st, "named-differs", f"named target '{st['name']}' is not bit-identical to its documented (Z={z}, A={a}) for {name} {st['process']} {st['scheme']} at x={XS[i]}: {why}"))
                break
        return {"violations": viol, "nontrivial": st["name"] not in ("proton",), "outcome": yrun.out_digest(o1), "transitions": 2}
    # rotation
    z, a = st["Z"], st["A"]
    (ot, s1), name = _run(st, {"Z": z, "A": a})
    (op, s2), _ = _run(st, "proton")
    if s1 != "ok" or s2 != "ok":
        if s1 != s2:
            return {"violations": [_v(st, "status", f"target (Z={z},A={a}) run is '{s1}' but proton run is '{s2}'")], "nontrivial": True, "outcome": s1 + s2, "transitions": 2}
        return _triv(s1, 2)
    viol = []
    maxrel = 0.0
    ud_differ = False
    for i in range(len(XS)):
        T, P = yrun.tensors(ot[name][i]), yrun.tensors(op[name][i])
        if set(T) != set(P):
            viol.append(_v(st, "keys", f"order keys differ between target and proton runs: {sorted(set(T) ^ set(P))}"))
            break
        for o in sorted(T):
            vt, vp = T[o][0], P[o][0]
            if not (np.all(np.isfinite(vt)) and np.all(np.isfinite(vp))):
                continue  # C16's business
            exp = vp.copy()
            for q, r in ((I1, I2), (IM1, IM2)):
                exp[q] = (z * vp[q] + (a - z) * vp[r]) / a
                exp[r] = (z * vp[r] + (a - z) * vp[q]) / a
            if np.any(vp[I1] != vp[I2]) or np.any(vp[IM1] != vp[IM2]):
                ud_differ = True
            sc = np.abs(exp) + np.abs(vt)
            g = np.max(np.abs(vp)) if vp.size else 0.0
            d = np.abs(vt - exp)
            tol = RTOL * (sc + g)
            if g > 0:
                maxrel = max(maxrel, float(np.max(d / (sc + g))))
            if np.any(d > tol):
                idx = np.unravel_index(np.argmax(d - tol), d.shape)
                viol.append(_v(st, "rotation", f"{name} {st['process']} {st['scheme']} pto={st['pto']} target (Z={z},A={a}) x={XS[i]} order {o}: row pid {yrun.PIDS[idx[0]]} entry {idx[1]} = {vt[idx]:.12g}, isospin rotation of the proton run gives {exp[idx]:.12g}"))
                break
        if viol:
            break
    nontrivial = ud_differ and abs(z / a - 0.5) > 1e-12 and abs(z / a - 1.0) > 1e-12
    return {"violations": viol[:1], "nontrivial": nontrivial, "outcome": yrun.out_digest(ot), "transitions": 2, "info": {"maxrel": maxrel}}


LEVEL_TEXT = (
    "Bounded-exhaustive relation checking between pairs of real runs: for every cell (kind x heavyness x process x scheme x PTO x Q2) and every target of the alphabet "
    "(incl. non-integer Z/A not in {0,1/2,1}, which are the discriminating ones because the mixing matrix is symmetric) the target operator must equal the isospin rotation of the "
    "proton operator row by row for every order key and leave all other rows unchanged (1e-13 relative to the terms plus the largest entry of the tensor); every named target must be bit-identical to its documented (Z,A) and unknown names must raise ValueError."
    " A sub-lattice crosses the rotation with non-canonical beams, TMC, polarisation + propagator correction and cross-section kinds."
)
LEVEL_NOTE = "Trusted: numpy arithmetic; documented (Z,A) values transcribed from docs/misc.rst and the citations in the code. Other grids/kinematics and targets outside the alphabet are not covered."
TECHNIQUE = "bounded-exhaustive enumeration of cells x targets; differential relation oracle between two public runs"
