"""C14 — results do not depend on request history or cache state.

Two explicit-state harnesses on live objects:
 H1: every card (ordered observables x ordered point lists with repetition) over a small
     universe, through the public Runner API, two get_result() calls;
 H2: every sequence (up to a depth) of cache-level operations on one live Runner
     (get_esf with/without TMC, delegated get_esf, get_result, drop_cache).
Oracle: bit-for-bit equality with the isolated reference (the same observable at the same
point requested alone on a fresh Runner with empty module-level memos).
"""
import itertools

import numpy as np

from .. import cards, yrun
from ..engine import digest

HISTORY_SWEEP = True
HISTORY_SWEEP_PER_PROCESS = 10
ID = "C14"
X1, X2, Q1, Q2 = 0.3, 0.5, 0.5, 7.0
POINTS = {
    "a": {"x": X1, "Q2": Q1},
    "b": {"x": X2, "Q2": Q1},
    "c": {"x": X1, "Q2": Q2},
    "a'": {"Q2": Q1, "x": X1},  # same point, other key order
    "e": {"Q2": X1, "x": Q1},  # forced collision partner of a under a value-order cache key
    "d": {"x": X2, "Q2": Q2},
}
# second family: zero-mass variable-flavour scheme, points in three different nf regions (shared scale-variation operator cache)
POINTS.update({
    "p": {"x": 0.3, "Q2": 2.0},   # nf=3
    "q": {"x": 0.3, "Q2": 10.0},  # nf=4
    "r": {"x": 0.1, "Q2": 30.0},  # nf=5
    "s": {"x": 0.1, "Q2": 10.0},  # nf=4
    "t": {"x": 0.3, "Q2": 30.0},  # nf=5
})
FAMILIES = {
    "ffns": {"base": {"scheme": "FFNS3", "process": "NC"}},
    "zm": {"base": {"scheme": "ZM-VFNS", "process": "NC"}},
    "zmcc": {"base": {"scheme": "ZM-VFNS", "process": "CC", "projectile": "neutrino"}},
    "ffnsem": {"base": {"scheme": "FFNS3", "process": "EM"}},
    "fonll": {"base": {"scheme": "FONLL-FFNS4", "process": "NC", "projectile": "positron"}},
    # unusual options: polarised positron beam on iron with propagator correction and shifted matching scales (n_f regions move: 3.02^2, 3.94^2)
    "zmopt": {"base": {"scheme": "ZM-VFNS", "process": "NC", "projectile": "positron", "target": "iron", "obscard": {"PolarizationDIS": -0.6, "PropagatorCorrection": 0.05}, "theory": {"kcThr": 2.0, "kbThr": 0.8}}},
    # asymptotic (FFN0) kernels, anti-neutrino beam
    "ffn0cc": {"base": {"scheme": "FFN03", "process": "CC", "projectile": "antineutrino"}},
    # scale-variation switches off in a scheme with intrinsic heavy-quark kernels (they get a special treatment of the factorisation logs by a manager all points share)
    "ffnsfoff": {"base": {"scheme": "FFNS3", "process": "NC", "theory": {"FactScaleVar": False}}},
    "ffnsroff": {"base": {"scheme": "FONLL-FFNS4", "process": "NC", "theory": {"RenScaleVar": False}}},
}
# H3: designed large cards (many observables x many points, three orderings) per family
H3_OBS = {
    "zm": ["F2_total", "FL_total", "F3_total", "g1_total", "F2_charm", "FL_light", "g4_total", "XSHERANC_total", "XSHERANCAVG_light", "F1_total"],
    "zmcc": ["F2_total", "FL_total", "F3_total", "F2_charm", "F3_charm", "FL_light", "XSCHORUSCC_total", "XSNUTEVCC_charm", "FW_total"],
    "ffnsem": ["F2_total", "FL_total", "g1_total", "F2_charm", "FL_charm", "F2_light", "F2_bottom", "XSHERANCAVG_total", "F1_charm"],
    "fonll": ["F2_total", "FL_total", "F3_total", "F2_bottom", "F2_charm", "XSHERANC_total"],
    "zmopt": ["F2_total", "FL_light", "F3_total", "g1_total", "F2_charm", "XSHERANC_total", "g4_total"],
    "ffn0cc": ["F2_total", "F3_charm", "F2_charm", "XSCHORUSCC_total"],
    "ffnsfoff": ["F2_light", "F2_total", "FL_charm", "F2_charm", "XSHERANC_total", "FL_light"],
    "ffnsroff": ["F2_light", "F2_total", "FL_bottom", "F2_charm", "XSHERANC_total"],
}
H3_POINTS = ["p", "q", "r", "s", "q", "t"]  # incl. a duplicate; n_f = 3,4,5 ; two x values
Y = 0.5
U_QUICK = ["F2_total", "FL_total", "XSHERANC_total"]
U_THOROUGH = ["F2_total", "FL_total", "XSHERANC_total", "F3_total", "g1_total", "XSCHORUSCC_charm", "F2_charm"]
BASE = {"scheme": "FFNS3", "process": "NC", "pto": 1}

RULE = (
    "H1: states = cards = ordered lists of <=2 distinct observables from U, each with an ordered list of <=2 points from P (repetition allowed), "
    "x TMC mode, run through Runner(...).get_result() twice; H2: states = all sequences up to depth D over the operation menu "
    "{get_esf(o,kin,use_raw) + get_result, delegated get_esf through another SF, drop_cache} on one live Runner. "
    "Every returned result is compared bit-for-bit with the isolated reference; non-trivial = the history contains at least two requests that "
    "share a cache (same SF, or TMC/XS coupling) ; distinct_outcomes = distinct canonical end states (sorted cache-key sets + computed flags) / result digests"
)
ASSUMPTIONS = [
    "H1 family ffns: FFNS3, NC, PTO 1, points a,b,c,a',e with Q2 in {0.3,0.5,7}; H1 family zm: ZM-VFNS, NC, PTO 1 (thorough also 2), points with Q2 in {2,10,30} i.e. nf=3,4,5 (shared scale-variation operator cache across nf); H2: FFNS3 PTO 0; grid G6, proton, M=0.938",
    "the isolated reference is computed on a fresh Runner in the same worker process after clearing yadism's only module-level memo (heavy.n3lo.interpolators); violations are re-confirmed in a fresh interpreter",
    "two more families (H1 and H3) switch one scale variation off in schemes with intrinsic heavy-quark kernels (FFNS3 with FactScaleVar off, FONLL-FFNS4 with RenScaleVar off)",
    "two option families (H1 and H3): zmopt = polarised positron beam on iron with propagator correction and kcThr=2, kbThr=0.8 (n_f regions move); ffn0cc = FFN0 with an antineutrino beam",
    "histories longer than the stated bounds and observables outside U are not covered",
]
BUDGET = {"quick": 1500, "thorough": 7200}
_REF = {}


def _pt(name, xs):
    p = dict(POINTS[name])
    if xs:
        p["y"] = Y
    return p


def _is_xs(o):
    return o.startswith("XS") or o.split("_")[0] in ("F1", "FW", "g5")


def states(tier, seed):
    out = []
    U = U_QUICK if tier == "quick" else U_THOROUGH
    P = ["a", "b", "c", "e"] if tier == "quick" else ["a", "b", "c", "a'", "e"]
    tmcs = [0, 1] if tier == "quick" else [0, 1, 3]
    plists = [[p] for p in P] + [[p, q] for p in P for q in P]
    for tmc in tmcs:
        for o in U:
            for pl in plists:
                out.append({"h": "H1", "tmc": tmc, "card": [[o, pl]]})
        pairs = list(itertools.permutations(U, 2))
        if tier == "thorough":
            # all ordered pairs over the first three observables, plus pairs involving the extra ones with one-point lists crossed with two-point lists
            pairs3 = list(itertools.permutations(U[:3], 2))
            for o1, o2 in pairs3:
                for pl1 in plists:
                    for pl2 in plists:
                        out.append({"h": "H1", "tmc": tmc, "card": [[o1, pl1], [o2, pl2]]})
            for o1, o2 in pairs:
                if (o1, o2) in pairs3:
                    continue
                for pl1 in [[p] for p in P]:
                    for pl2 in plists:
                        out.append({"h": "H1", "tmc": tmc, "card": [[o1, pl1], [o2, pl2]]})
        else:
            for o1, o2 in pairs:
                for pl1 in plists:
                    for pl2 in plists:
                        out.append({"h": "H1", "tmc": tmc, "card": [[o1, pl1], [o2, pl2]]})
    # H1, zero-mass family: points spread over nf regions
    Uz = ["F2_total", "FL_light", "XSHERANC_total"]
    Pz = ["p", "q", "r"] if tier == "quick" else ["p", "q", "r", "s"]
    plz = [[a] for a in Pz] + [[a, b] for a in Pz for b in Pz]
    for tmc in ([0] if tier == "quick" else [0, 1]):
        for pto in ([1] if tier == "quick" else [1, 2]):
            for o in Uz:
                for pl in plz:
                    out.append({"h": "H1", "fam": "zm", "pto": pto, "tmc": tmc, "card": [[o, pl]]})
            for o1, o2 in itertools.permutations(Uz, 2):
                for pl1 in (plz if tier == "thorough" and pto == 1 else [[a] for a in Pz]):
                    for pl2 in plz:
                        out.append({"h": "H1", "fam": "zm", "pto": pto, "tmc": tmc, "card": [[o1, pl1], [o2, pl2]]})
    if tier == "quick":
        # O(a_s^2): NLO splitting operators and convolved labels enter the shared scale-variation cache
        for o in ("F2_total", "FL_light"):
            for pl in plz:
                out.append({"h": "H1", "fam": "zm", "pto": 2, "tmc": 0, "card": [[o, pl]]})
        out.append({"h": "H1", "fam": "zm", "pto": 2, "tmc": 0, "card": [["FL_light", ["r"]], ["F2_total", ["q", "p"]]]})
    # H1 on the option families (unusual card values): every one- and two-point list, and ordered pairs with one-point first lists
    for fam, Uo in (("zmopt", ["F2_total", "XSHERANC_total", "g1_total"]), ("ffn0cc", ["F2_total", "F3_charm", "XSCHORUSCC_total"]), ("ffnsfoff", ["F2_total", "F2_light", "FL_charm"]), ("ffnsroff", ["F2_total", "F2_light", "XSHERANC_total"])):
        for o in Uo:
            for pl in plz:
                out.append({"h": "H1", "fam": fam, "pto": 1, "tmc": 0, "card": [[o, pl]]})
        for o1, o2 in itertools.permutations(Uo, 2):
            for a in Pz:
                for pl2 in plz:
                    out.append({"h": "H1", "fam": fam, "pto": 1, "tmc": 1 if fam in ("zmopt", "ffnsfoff") else 0, "card": [[o1, [a]], [o2, pl2]]})
    # H3: designed large cards
    for fam in H3_OBS:
        for tmc in (0, 1):
            for pto in ([1] if tier == "quick" else [1, 2]):
                if fam == "ffnsem" and pto == 2:
                    continue
                for ordering in ("asc", "desc", "interleaved"):
                    out.append({"h": "H3", "fam": fam, "tmc": tmc, "pto": pto, "ordering": ordering})
    # H2
    depth = 3 if tier == "quick" else 4
    menu = h2_menu(tier)
    for tmc in ([1] if tier == "quick" else [1, 3]):
        for d in range(1, (depth if tmc == 1 else 3) + 1):
            for seq in itertools.product(range(len(menu)), repeat=d):
                # a sequence of drops only is pointless but harmless; keep the space complete
                out.append({"h": "H2", "tmc": tmc, "seq": list(seq), "tier_menu": tier})
    return out


def h2_menu(tier):
    obs = ["F2_total", "FL_total"]
    kins = ["a", "a'", "e"]
    menu = []
    for o in obs:
        for k in kins:
            for raw in (True, False):
                menu.append(("get", o, k, raw))
        if tier != "quick":
            menu.append(("get", o, "b", False))
    for k in kins[:3]:
        menu.append(("delegate", "FL_total", "F2_total", k))
    menu.append(("drop",))
    return menu


def bounds(tier):
    return {"H2_menu": [list(m) for m in h2_menu(tier)], "H2_depth": 3 if tier == "quick" else 4}


def _cell(tmc, pto, fam="ffns"):
    c = dict(FAMILIES[fam]["base"])
    c["pto"] = pto
    c["tmc"] = tmc
    return c


def _reference(o, pname, tmc, pto, fam="ffns"):
    """Digest of the isolated request on a fresh runner."""
    key = (o, pname if pname != "a'" else "a", tmc, pto, fam)
    if key not in _REF:
        yrun.reset_memos()
        out = yrun.run(_cell(tmc, pto, fam), {o: [_pt(pname, _is_xs(o))]})
        _REF[key] = (yrun.res_digest(out[o][0]), out[o][0])
    return _REF[key]


def execute(st):
    if st["h"] == "H3":
        return _h3(st)
    return _h1(st) if st["h"] == "H1" else _h2(st)


def _h3(st):
    fam = st["fam"]
    obs = list(H3_OBS[fam])
    pts = list(H3_POINTS)
    if st["ordering"] == "desc":
        obs, pts = obs[::-1], pts[::-1]
    elif st["ordering"] == "interleaved":
        obs = obs[::2] + obs[1::2]
        pts = pts[1::2] + pts[::2]
    if st["tmc"] != 0:
        obs = [o for o in obs if o.split("_")[0] not in ("g4", "gL", "g5")]  # no TMC for these kinds (explicit NotImplementedError)
    card = [[o, pts] for o in obs]
    st2 = {"h": "H1", "fam": fam, "pto": st["pto"], "tmc": st["tmc"], "card": card}
    r = _h1(st2, calls=(1,))
    for v in r["violations"]:
        v["fp"]["h"] = "H3"
        v["fpkey"]["h"] = "H3"
    return r


def _h1(st, calls=(1, 2)):
    tmc = st["tmc"]
    card = st["card"]
    obs_map = {o: [_pt(p, _is_xs(o)) for p in pl] for o, pl in card}
    yrun.reset_memos()
    fam = st.get("fam", "ffns")
    pto = st.get("pto", 1)
    r = yrun.runner(_cell(tmc, pto, fam), obs_map)
    viol = []
    digs = []
    rejected = False
    for call in calls:
        out = r.get_result()
        for o, pl in card:
            if len(out[o]) != len(pl):
                viol.append(_v(st, f"{o}: {len(out[o])} results for {len(pl)} points", "count"))
                continue
            for i, p in enumerate(pl):
                res = out[o][i]
                req = _pt(p, _is_xs(o))
                if float(res.x) != req["x"] or float(res.Q2) != req["Q2"] or (_is_xs(o) and float(res.y) != req["y"]):
                    viol.append(_v(st, f"{o}[{i}] (point {p}) reports kinematics x={res.x} Q2={res.Q2}, requested {req} (get_result call {call})", "kinematics"))
                refd, _ = _reference(o, p, tmc, pto, fam)
                d = yrun.res_digest(res)
                digs.append(d)
                if d != refd:
                    viol.append(_v(st, f"{o}[{i}] (point {p}, TMC={tmc}, get_result call {call}) differs from the isolated request; card={card}", "differs"))
    # non-trivial: at least two requests that can interact through a cache
    nreq = sum(len(pl) for _, pl in card)
    return {
        "violations": viol[:1],
        "nontrivial": nreq >= 2,
        "outcome": digest(digs),
        "transitions": 2 + nreq,
    }


def _v(st, msg, what):
    fp = {"h": st["h"], "tmc": st["tmc"], "what": what}
    return {"fp": fp, "fpkey": {"h": st["h"], "what": what, "tmc": st["tmc"]}, "msg": msg}


def _canon(r):
    from yadism.sf import StructureFunction

    c = []
    for name in sorted(r.observables):
        sf = r.observables[name]
        if isinstance(sf, StructureFunction):
            c.append((name, sorted((repr(k), type(v).__name__, bool(getattr(v, "_computed", False))) for k, v in sf.cache.items())))
    c.append(sorted(repr(k) for k in r.configs.managers["sv_manager"].operators))
    return c


def _h2(st):
    from yadism.observable_name import ObservableName
    from yadism.esf import tmc as ytmc

    tmc = st["tmc"]
    menu = h2_menu(st["tier_menu"])
    yrun.reset_memos()
    r = yrun.runner(_cell(tmc, 0), {})
    viol = []
    digs = []
    ngets = 0
    for step, mi in enumerate(st["seq"]):
        op = menu[mi]
        if op[0] == "drop":
            r.drop_cache()
            continue
        if op[0] == "get":
            _, o, k, raw = op
            kin = dict(POINTS[k])
            obj = r.get_sf(ObservableName(o)).get_esf(ObservableName(o), kin, use_raw=raw)
            want_tmc = not raw
        else:
            _, parent, o, k = op
            kin = dict(POINTS[k])
            obj = r.get_sf(ObservableName(parent)).get_esf(ObservableName(o), kin)
            want_tmc = False  # delegation asks for the raw object (use_raw defaults to True)
        ngets += 1
        is_tmc = isinstance(obj, ytmc.EvaluatedStructureFunctionTMC)
        oname = obj.sf.obs_name.name if is_tmc else obj.info.obs_name.name
        if is_tmc != want_tmc or oname != o or float(obj.x) != kin["x"] or float(obj.Q2) != kin["Q2"]:
            viol.append(_v(st, f"step {step} {op}: cache returned {type(obj).__name__}({oname}, x={obj.x}, Q2={obj.Q2}) for request {o} {kin} tmc={want_tmc}; seq={[menu[i] for i in st['seq']]}", "wrong-object"))
            break
        res = obj.get_result()
        refd, _ = _reference(o, k, tmc if want_tmc else 0, 0)
        d = yrun.res_digest(res)
        digs.append(d)
        if d != refd:
            viol.append(_v(st, f"step {step} {op}: result differs from the isolated request; seq={[menu[i] for i in st['seq']]}", "differs"))
            break
    return {
        "violations": viol[:1],
        "nontrivial": ngets >= 2,
        "outcome": digest(_canon(r)),
        "transitions": len(st["seq"]),
    }


LEVEL_TEXT = (
    "Explicit-state exploration of operation histories on live objects: (H1) every card over a small universe of observables and points "
    "(ordered, with repetition, incl. the same point with permuted dict keys and the value-swapped collision partner) run through the public Runner API with two "
    "get_result() calls, and (H2) every sequence up to depth 3 (quick) / 4 (thorough) of cache-level operations on one live Runner. After every transition the "
    "returned operator is compared bit-for-bit with the isolated request and the object served by the cache must be the one requested."
    " Two option families (polarised positron beam on iron with shifted matching scales; FFN0 with an antineutrino beam) are explored in H1 and H3."
)
LEVEL_NOTE = (
    "Trusted: sha256 over the float64 bytes of all order keys as equality; the isolated reference is computed by the same code on a fresh Runner "
    "(the property is a relation between executions, no independent numerical model is needed). Bounds: |U|<=7, |P|<=5, <=2 observables x <=2 points per card, depth<=4."
)
TECHNIQUE = "explicit-state search over bounded operation histories on live Runner objects, differential oracle against the isolated execution"
