"""C04 — massless coefficient functions obey sum rules and NLO closed forms.

States: (check id, n_f). Moments are computed by the reference (ref_conv.moment: plus prescription explicit, delta = loc(0)).
 sum rules : Adler (N=1 of the F2 nu-nubar non-singlet = 0 at orders 1..3), GLS/Bjorken (N=1 of F3 / g1 non-singlet, valence fl02 piece)
 closed forms: NLO quark/gluon coefficients of F2, FL, F3, g1 (and g4, gL) point-wise on a z lattice and through Mellin moments, against ref_nlo
 relations : documented identities between classes (g1_ns == F3_ns, g4 == F2, gL == FL non-singlets; CC even/odd via the +/- differences)
"""
import itertools
import math

import numpy as np

from .. import cards, yrun
from ..engine import digest
from ..ref import ref_conv, ref_nlo

HISTORY_SWEEP = True
HISTORY_SWEEP_PER_PROCESS = 14
ID = "C04"
ZLAT = sorted(set([10.0**-k for k in range(1, 8)] + [1 - 10.0**-k for k in range(1, 7)] + [0.05 * i for i in range(1, 20)] + [0.33, 0.77]))
NS = [1.0, 2.0, 3.0, 4.0, 6.0, 8.0, 2.5, 5.5]
TOL_SUM = 1e-4  # Adler / GLS / Bjorken (measured <= 1.4e-5)
TOL_LBL = 3e-4  # light-by-light piece (measured 6.5e-5)

RULE = (
    "states = (check, n_f [, lepton/anti-lepton pair for the engine-level sum rules]): sum-rule checks per (class, order), closed-form checks per (class, coefficient) on a z lattice of 41 points and 8 Mellin N (integer and real), relation checks between classes; "
    "exact (analytic) statements at 1e-12 point-wise / 1e-9 on moments, parametrised NNLO/N3LO sum rules at 1e-4 (light-by-light piece 3e-4) of the sum of absolute pieces; non-trivial = every state (each compares non-zero numbers)"
)
ASSUMPTIONS = [
    "classes are instantiated with a stub ESF (they only store it); n_f = 3..6",
    "engine-level states: the kernels Combiner.collect_elems assembles for F2_light / F3_light CC in ZM-VFNS at PTO 3 (Q2 = 2, 10, 100, 1e5 for n_f = 3..6), for the pairs (neutrino, antineutrino) and (electron, positron): per parton, the first moment of the coefficient of F2(l)-F2(lbar) vanishes at orders 1..3 (Adler) and that of F3(l)+F3(lbar), valence class aside, equals LO weight x GLS series coefficient",
    "sum-rule constants from Larin-Vermaseren (GLS/Bjorken) in a_s = alpha_s/4pi; tolerance for parametrised orders 1e-4 (3e-4 for the light-by-light piece) x sum|reg,sing,delta pieces| (Vogt et al. quote <= 1e-3 accuracy; measured residuals <= 1.4e-5 and 6.5e-5)",
    "higher moments of NNLO/N3LO pieces are not compared with literature values (cannot be re-derived offline); only the exact inter-class relations the code documents are checked there",
]
BUDGET = {"quick": 600, "thorough": 1800}


class _ESF:
    x = 0.1
    Q2 = 10.0


ZLAT_DENSE = sorted(set(ZLAT + [10.0**-k for k in range(1, 12)] + [1 - 10.0**-k for k in range(1, 10)] + [i / 256.0 for i in range(1, 256)]))
NS_DENSE = sorted(set(NS + [float(n) for n in range(1, 31)] + [n + 0.5 for n in range(1, 20)] + [1.1, 1.01, 45.0, 80.0]))
_Z, _N = ZLAT, NS


def states(tier, seed):
    out = _states_base(tier, seed)
    if tier == "thorough":
        # deep extension: the closed forms and inter-class identities on a 285-point z lattice (down to 1e-11, up to 1-1e-9) and 60 Mellin moments (N up to 80)
        out += [dict(st, dense=1) for st in out if st["check"].startswith(("nlo_", "rel_"))]
    return out


def _states_base(tier, seed):
    out = []
    for nf in (3, 4, 5, 6):
        for chk in ("adler", "gls", "bjorken", "valence", "nlo_f2", "nlo_fl", "nlo_f3", "nlo_g1", "nlo_g4gl", "rel_g1_f3", "rel_g4_f2", "rel_gl_fl", "rel_cc", "lo"):
            out.append({"check": chk, "nf": nf})
        # the same sum rules on the kernels the engine assembles (weights x coefficient classes) for lepton / anti-lepton pairs
        for chk, pair in itertools.product(("engine_adler", "engine_gls"), (["neutrino", "antineutrino"], ["electron", "positron"])):
            out.append({"check": chk, "nf": nf, "pair": pair})
        # GLS / Bjorken on the kernels assembled for NC observables, incl. the single-flavour massless ones (F3_charm, g1_charm, ... when that quark is active)
        for obs in ("F3_light", "g1_light", "F3_total", "g1_total", "F3_charm", "g1_charm", "F3_bottom", "g1_bottom"):
            out.append({"check": "engine_nc", "nf": nf, "obs": obs})
    return out


def _mods():
    from yadism.coefficient_functions.light import f2_cc, f2_nc, f3_cc, f3_nc, fl_cc, fl_nc, g1_nc, g4_nc, gl_nc

    return dict(f2_cc=f2_cc, f2_nc=f2_nc, f3_cc=f3_cc, f3_nc=f3_nc, fl_cc=fl_cc, fl_nc=fl_nc, g1_nc=g1_nc, g4_nc=g4_nc, gl_nc=gl_nc)


def _rsl(mod, cls, nf, order):
    return getattr(_mods()[mod], cls)(_ESF(), nf)[order]()


def _triple(rsl):
    if rsl is None:
        return None
    delta = float(rsl.loc(0.0, rsl.args["loc"])) if rsl.loc is not None else 0.0
    return rsl.reg, rsl.args["reg"], rsl.sing, rsl.args["sing"], delta


def _moment(rsl, N):
    reg, ra, sing, sa, delta = _triple(rsl)
    return ref_conv.moment(reg, ra, sing, sa, delta, N)[0]


def _pieces(rsl, N=1.0):
    """sum of |regular|, |singular|, |delta| contributions to the N-th moment (scale for the tolerance)."""
    reg, ra, sing, sa, delta = _triple(rsl)
    tot = abs(delta)
    if reg is not None:
        tot += abs(ref_conv.moment(lambda z, a: abs(reg(z, ra)), None, None, None, 0.0, N)[0])
    if sing is not None:
        tot += abs(ref_conv.moment(None, None, sing, sa, 0.0, N + 1)[0]) + abs(ref_conv.moment(None, None, sing, sa, 0.0, N + 3)[0])
    return tot


def _f(rsl, z):
    v = 0.0
    if rsl.reg is not None:
        v += rsl.reg(z, rsl.args["reg"])
    if rsl.sing is not None:
        v += rsl.sing(z, rsl.args["sing"])
    return v


def _v(st, what, msg):
    fp = dict(st, cls=what)
    return {"fp": fp, "fpkey": {"cls": what, "check": st["check"]}, "msg": msg}


def _cmp_closed(st, viol, label, rsl, ref):
    """rsl (library) vs ref = (reg, sing, delta) closed form: pointwise on z<1 and via moments."""
    rr, rs, rd = ref
    worst = 0.0
    if rsl is None:
        viol.append(_v(st, "missing", f"{label}: the class has no coefficient at this order"))
        return 0.0
    for z in _Z:
        a = _f(rsl, z)
        b = (rr(z, None) if rr else 0.0) + (rs(z, None) if rs else 0.0)
        sc = abs(b) + (abs(rr(z, None)) if rr else 0.0) + (abs(rs(z, None)) if rs else 0.0)
        worst = max(worst, abs(a - b) / sc if sc > 0 else 0.0)
        if abs(a - b) > 1e-11 * sc:
            viol.append(_v(st, "closed-form-pointwise", f"{label}: value at z={z}: {a:.14g}, published closed form {b:.14g}"))
            break
    for N in _N:
        a = _moment(rsl, N)
        b = ref_conv.moment(rr, None, rs, None, rd, N)[0]
        sc = abs(b) + abs(rd) + 1.0
        worst = max(worst, abs(a - b) / sc)
        if abs(a - b) > 1e-9 * sc:
            viol.append(_v(st, "closed-form-moment", f"{label}: Mellin moment N={N}: {a:.12g}, published closed form {b:.12g}"))
            break
    return worst


def _cmp_same(st, viol, label, a, b, orders):
    worst = 0.0
    for o in orders:
        ra, rb = a(o), b(o)
        if (ra is None) != (rb is None):
            viol.append(_v(st, "relation-missing", f"{label} order {o}: one side has no coefficient"))
            continue
        if ra is None:
            continue
        for z in _Z:
            x, y = _f(ra, z), _f(rb, z)
            if abs(x - y) > 1e-12 * (abs(x) + abs(y)):
                viol.append(_v(st, "relation-pointwise", f"{label} order {o}: values at z={z}: {x:.14g} vs {y:.14g}"))
                break
        da, db = _triple(ra)[4], _triple(rb)[4]
        if abs(da - db) > 1e-12 * (abs(da) + abs(db)):
            viol.append(_v(st, "relation-delta", f"{label} order {o}: delta coefficients {da:.14g} vs {db:.14g}"))
        for x0 in (0.3, 0.9):
            la = ra.loc(x0, ra.args["loc"]) if ra.loc is not None else 0.0
            lb = rb.loc(x0, rb.args["loc"]) if rb.loc is not None else 0.0
            if abs(la - lb) > 1e-12 * (abs(la) + abs(lb)):
                viol.append(_v(st, "relation-local", f"{label} order {o}: local parts at x={x0}: {la:.14g} vs {lb:.14g}"))
    return worst


_Q2_FOR_NF = {3: 2.0, 4: 10.0, 5: 100.0, 6: 1e5}


def _engine_moments(kind, proj, nf, skip=()):
    """first moments per parton and order of the light CC kernels the Combiner assembles: sum_k w_k[pid] * M_1(coeff_k[order])."""
    import yadism.coefficient_functions as cf

    name = f"{kind}_light"
    r = yrun.runner({"scheme": "ZM-VFNS", "process": "CC", "projectile": proj, "pto": 3}, {name: [cards.kin(0.1, _Q2_FOR_NF[nf])]})
    esf = r.observables[name].elements[0]
    M = {o: np.zeros(14) for o in range(4)}
    S = {o: np.zeros(14) for o in range(4)}
    classes = set()
    for cfe in cf.Combiner(esf).collect_elems():
        cname = type(cfe.coeff).__name__
        if int(cfe.coeff.nf) != nf:
            raise AssertionError(f"kernel {cname} built with nf={cfe.coeff.nf}, expected {nf}")
        if cname in skip:
            continue
        classes.add(cname)
        w = np.array([cfe.partons.get(pid, 0.0) for pid in yrun.PIDS], dtype=float)
        for o in range(4):
            if not cfe.has_order(o):
                continue
            rsl = cfe.coeff[o]()
            if rsl is None:
                continue
            M[o] += w * _moment(rsl, 1.0)
            S[o] += np.abs(w) * _pieces(rsl)
    return M, S, classes


def _engine_nc(st):
    """per parton: first moment of the assembled non-singlet coefficient of a NC F3 / g1 observable = LO weight x GLS/Bjorken series coefficient (valence / gluon / singlet classes aside)."""
    import yadism.coefficient_functions as cf

    nf, name = st["nf"], st["obs"]
    kind, hv = name.split("_")
    maxo = 3 if kind == "F3" else 2
    r = yrun.runner({"scheme": "ZM-VFNS", "process": "NC", "projectile": "electron", "pto": maxo}, {name: [cards.kin(0.1, _Q2_FOR_NF[nf])]})
    esf = r.observables[name].elements[0]
    M = {o: np.zeros(14) for o in range(maxo + 1)}
    S = {o: np.zeros(14) for o in range(maxo + 1)}
    for cfe in cf.Combiner(esf).collect_elems():
        cname = type(cfe.coeff).__name__
        if cname != "NonSinglet":
            continue
        w = np.array([cfe.partons.get(pid, 0.0) for pid in yrun.PIDS], dtype=float)
        for o in range(maxo + 1):
            if not cfe.has_order(o):
                continue
            rsl = cfe.coeff[o]()
            if rsl is None:
                continue
            M[o] += w * _moment(rsl, 1.0)
            S[o] += np.abs(w) * _pieces(rsl)
    viol, info = [], {}
    lo = M[0]
    nontrivial = bool(np.any(lo != 0))
    for o in range(1, maxo + 1):
        d = M[o] - lo * ref_nlo.gls_bjorken(o, nf)
        sc = S[o]
        if sc.max() == 0:
            continue
        tol = (1e-9 if o <= 1 else TOL_SUM) * (sc + sc.max())
        info[f"engine_nc_o{o}"] = float(np.max(np.abs(d) / (sc + sc.max())))
        if np.any(np.abs(d) > tol):
            i = int(np.argmax(np.abs(d) - tol))
            viol.append(_v(st, "engine-nc", f"{'GLS' if kind == 'F3' else 'Bjorken'} sum rule on the assembled NC kernels of {name} (ZM-VFNS, n_f={nf}): first moment of the non-singlet coefficient of parton {yrun.PIDS[i]} at order {o}: {M[o][i]:.8g}, expected LO weight {lo[i]:.4g} x series coefficient {ref_nlo.gls_bjorken(o, nf):.8g}"))
    return {"violations": viol[:3], "nontrivial": nontrivial, "outcome": digest(["engine_nc", nf, name, {k: round(v, 12) for k, v in info.items()}]), "transitions": maxo, "sub": maxo, "info": info}


def _engine(st):
    if st["check"] == "engine_nc":
        return _engine_nc(st)
    nf, chk = st["nf"], st["check"]
    viol, info = [], {}
    l, lbar = st["pair"]
    if chk == "engine_adler":
        (Ma, Sa, ca), (Mb, Sb, cb) = _engine_moments("F2", l, nf), _engine_moments("F2", lbar, nf)
        lo = Ma[0] - Mb[0]
        nontrivial = bool(np.any(lo != 0))
        for o in (1, 2, 3):
            d = Ma[o] - Mb[o]
            sc = Sa[o] + Sb[o]
            tol = (1e-9 if o <= 1 else TOL_SUM) * (sc + sc.max())
            info[f"engine_adler_o{o}"] = float(np.max(np.abs(d) / (sc + sc.max())))
            if np.any(np.abs(d) > tol):
                i = int(np.argmax(np.abs(d) - tol))
                viol.append(_v(st, "engine-adler", f"Adler sum rule on the assembled CC kernels: first moment of the coefficient of parton {yrun.PIDS[i]} in F2({l}) - F2({lbar}) at order {o}, nf={nf}: {d[i]:.8g} (expected 0, LO coefficient {lo[i]:.4g}; classes {sorted(ca)})"))
    else:
        (Ma, Sa, ca), (Mb, Sb, cb) = _engine_moments("F3", l, nf, skip=("Valence",)), _engine_moments("F3", lbar, nf, skip=("Valence",))
        lo = Ma[0] + Mb[0]
        nontrivial = bool(np.any(lo != 0))
        for o in (1, 2, 3):
            d = Ma[o] + Mb[o] - lo * ref_nlo.gls_bjorken(o, nf)
            sc = Sa[o] + Sb[o]
            tol = (1e-9 if o <= 1 else TOL_SUM) * (sc + sc.max())
            info[f"engine_gls_o{o}"] = float(np.max(np.abs(d) / (sc + sc.max())))
            if np.any(np.abs(d) > tol):
                i = int(np.argmax(np.abs(d) - tol))
                viol.append(_v(st, "engine-gls", f"GLS sum rule on the assembled CC kernels: first moment of the coefficient of parton {yrun.PIDS[i]} in F3({l}) + F3({lbar}) at order {o}, nf={nf}: {(Ma[o]+Mb[o])[i]:.8g}, expected LO weight {lo[i]:.4g} x series coefficient {ref_nlo.gls_bjorken(o, nf):.8g} (classes {sorted(ca)})"))
    return {"violations": viol[:3], "nontrivial": nontrivial, "outcome": digest([chk, nf, st["pair"], {k: round(v, 12) for k, v in info.items()}]), "transitions": 6, "sub": 6, "info": info}


def execute(st):
    global _Z, _N
    _Z, _N = (ZLAT_DENSE, NS_DENSE) if st.get("dense") else (ZLAT, NS)
    nf = st["nf"]
    chk = st["check"]
    if chk.startswith("engine_"):
        return _engine(st)
    viol = []
    info = {}
    nt = 0
    if chk == "adler":
        for o in (0, 1, 2, 3):
            rsl = _rsl("f2_cc", "NonSingletOdd", nf, o)
            m = _moment(rsl, 1.0)
            exp = 1.0 if o == 0 else 0.0
            sc = _pieces(rsl)
            tol = (1e-9 if o <= 1 else TOL_SUM) * sc
            info[f"adler_o{o}"] = abs(m - exp) / sc
            nt += 1
            if abs(m - exp) > tol:
                viol.append(_v(st, "adler", f"Adler sum rule: first moment of the F2 nu-nubar non-singlet coefficient at order {o}, nf={nf}: {m:.8g} (expected {exp}, tolerance {tol:.2e})"))
    elif chk in ("gls", "bjorken"):
        mod, cls, maxo = ("f3_nc", "NonSinglet", 3) if chk == "gls" else ("g1_nc", "NonSinglet", 2)
        for o in range(0, maxo + 1):
            rsl = _rsl(mod, cls, nf, o)
            m = _moment(rsl, 1.0)
            exp = ref_nlo.gls_bjorken(o, nf)
            sc = _pieces(rsl)
            tol = (1e-9 if o <= 1 else TOL_SUM) * sc
            info[f"{chk}_o{o}"] = abs(m - exp) / sc
            nt += 1
            if abs(m - exp) > tol:
                viol.append(_v(st, chk, f"{chk.upper()} sum rule: first moment of {mod}.{cls} at order {o}, nf={nf}: {m:.8g}, series coefficient {exp:.8g} (tolerance {tol:.2e})"))
        if chk == "gls":
            # the CC odd-N combination is the same object
            for o in range(0, 4):
                a, b = _rsl("f3_cc", "NonSingletOdd", nf, o), _rsl("f3_nc", "NonSinglet", nf, o)
                if abs(_moment(a, 1.0) - _moment(b, 1.0)) > 1e-12 * (1 + abs(_moment(b, 1.0))):
                    viol.append(_v(st, "gls-cc", f"f3_cc.NonSingletOdd differs from f3_nc.NonSinglet at order {o}"))
    elif chk == "valence":
        rsl = _rsl("f3_nc", "Valence", nf, 3)
        m = _moment(rsl, 1.0)
        exp = ref_nlo.lbl_piece(nf)
        # compare within the accuracy of the total GLS coefficient
        sc = _pieces(rsl) + abs(ref_nlo.gls_bjorken(3, nf))
        info["valence"] = abs(m - exp) / sc
        nt += 1
        if abs(m - exp) > TOL_LBL * sc:
            viol.append(_v(st, "valence", f"GLS light-by-light (fl02, valence) piece: first moment at N3LO nf={nf}: {m:.8g}, expected {exp:.8g}"))
        for o in (0, 1, 2):
            if _rsl("f3_nc", "Valence", nf, o) is not None:
                viol.append(_v(st, "valence-low-order", f"f3_nc.Valence has a coefficient at order {o}"))
    elif chk == "nlo_f2":
        info["w"] = max(_cmp_closed(st, viol, f"F2 NLO quark (nf={nf})", _rsl("f2_nc", "NonSinglet", nf, 1), ref_nlo.c2q()), _cmp_closed(st, viol, f"F2 NLO gluon (nf={nf})", _rsl("f2_nc", "Gluon", nf, 1), ref_nlo.c2g(nf)))
        if _rsl("f2_nc", "Singlet", nf, 1) is not None:
            viol.append(_v(st, "nlo-singlet", "F2 pure singlet must vanish at NLO"))
        nt = 2
    elif chk == "nlo_fl":
        info["w"] = max(_cmp_closed(st, viol, f"FL NLO quark (nf={nf})", _rsl("fl_nc", "NonSinglet", nf, 1), ref_nlo.clq()), _cmp_closed(st, viol, f"FL NLO gluon (nf={nf})", _rsl("fl_nc", "Gluon", nf, 1), ref_nlo.clg(nf)))
        for cls in ("NonSinglet", "Gluon", "Singlet"):
            if _rsl("fl_nc", cls, nf, 0) is not None:
                viol.append(_v(st, "fl-lo", f"FL {cls} must vanish at LO (Callan-Gross)"))
        nt = 2
    elif chk == "nlo_f3":
        info["w"] = _cmp_closed(st, viol, f"F3 NLO quark (nf={nf})", _rsl("f3_nc", "NonSinglet", nf, 1), ref_nlo.c3q())
        for mod in ("f3_nc", "f3_cc"):
            for cls in ("Gluon", "Singlet"):
                for o in (0, 1, 2, 3):
                    if _rsl(mod, cls, nf, o) is not None:
                        viol.append(_v(st, "f3-gluon", f"{mod}.{cls} order {o} must vanish (F3 is a non-singlet quantity)"))
        for cls in ("NonSingletEven", "NonSingletOdd"):
            _cmp_closed(st, viol, f"F3 CC {cls} NLO quark (nf={nf})", _rsl("f3_cc", cls, nf, 1), ref_nlo.c3q())
        nt = 3
    elif chk == "nlo_g1":
        info["w"] = max(_cmp_closed(st, viol, f"g1 NLO quark (nf={nf})", _rsl("g1_nc", "NonSinglet", nf, 1), ref_nlo.c3q()), _cmp_closed(st, viol, f"g1 NLO gluon (nf={nf})", _rsl("g1_nc", "Gluon", nf, 1), ref_nlo.dcg(nf)))
        nt = 2
    elif chk == "nlo_g4gl":
        info["w"] = max(_cmp_closed(st, viol, f"g4 NLO quark (nf={nf})", _rsl("g4_nc", "NonSinglet", nf, 1), ref_nlo.c2q()), _cmp_closed(st, viol, f"gL NLO quark (nf={nf})", _rsl("gl_nc", "NonSinglet", nf, 1), ref_nlo.clq()))
        nt = 2
    elif chk == "rel_g1_f3":
        _cmp_same(st, viol, f"g1 non-singlet == F3 non-singlet (nf={nf})", lambda o: _rsl("g1_nc", "NonSinglet", nf, o), lambda o: _rsl("f3_nc", "NonSinglet", nf, o), (0, 1, 2))
        nt = 3
    elif chk == "rel_g4_f2":
        _cmp_same(st, viol, f"g4 non-singlet == F2 non-singlet (nf={nf})", lambda o: _rsl("g4_nc", "NonSinglet", nf, o), lambda o: _rsl("f2_nc", "NonSinglet", nf, o), (0, 1, 2))
        nt = 3
    elif chk == "rel_gl_fl":
        _cmp_same(st, viol, f"gL non-singlet == FL non-singlet (nf={nf})", lambda o: _rsl("gl_nc", "NonSinglet", nf, o), lambda o: _rsl("fl_nc", "NonSinglet", nf, o), (0, 1, 2))
        nt = 3
    elif chk == "rel_cc":
        # even/odd: F2, FL even == NC; F3 odd == NC; LO/NLO identical for even and odd
        _cmp_same(st, viol, f"F2 CC even == NC (nf={nf})", lambda o: _rsl("f2_cc", "NonSingletEven", nf, o), lambda o: _rsl("f2_nc", "NonSinglet", nf, o), (0, 1, 2, 3))
        _cmp_same(st, viol, f"FL CC even == NC (nf={nf})", lambda o: _rsl("fl_cc", "NonSingletEven", nf, o), lambda o: _rsl("fl_nc", "NonSinglet", nf, o), (0, 1, 2, 3))
        _cmp_same(st, viol, f"F3 CC odd == NC (nf={nf})", lambda o: _rsl("f3_cc", "NonSingletOdd", nf, o), lambda o: _rsl("f3_nc", "NonSinglet", nf, o), (0, 1, 2, 3))
        for mod in ("f2_cc", "fl_cc", "f3_cc"):
            _cmp_same(st, viol, f"{mod} even == odd up to NLO (nf={nf})", lambda o, mod=mod: _rsl(mod, "NonSingletEven", nf, o), lambda o, mod=mod: _rsl(mod, "NonSingletOdd", nf, o), (0, 1))
        # the even-odd differences are O(a_s^2) objects that vanish for z -> 1 faster than the coefficients themselves: their first moments are finite and the
        # delta coefficients agree up to the small constants of the parametrisations (Adler / GLS above pin the absolute values)
        nt = 6
    elif chk == "lo":
        for mod, cls, exp in (("f2_nc", "NonSinglet", 1.0), ("f3_nc", "NonSinglet", 1.0), ("g1_nc", "NonSinglet", 1.0), ("g4_nc", "NonSinglet", 1.0), ("f2_cc", "NonSingletOdd", 1.0), ("f3_cc", "NonSingletEven", 1.0)):
            rsl = _rsl(mod, cls, nf, 0)
            if rsl is None or rsl.reg is not None or rsl.sing is not None or abs(_triple(rsl)[4] - exp) > 0:
                viol.append(_v(st, "lo", f"{mod}.{cls} LO coefficient is not delta(1-z)"))
        for mod in ("f2_nc", "g1_nc"):
            for cls in ("Gluon", "Singlet"):
                if _rsl(mod, cls, nf, 0) is not None:
                    viol.append(_v(st, "lo-gluon", f"{mod}.{cls} must vanish at LO"))
        nt = 10
    return {"violations": viol[:3], "nontrivial": True, "outcome": digest([chk, nf, {k: round(v, 14) for k, v in info.items()}]), "transitions": nt, "sub": max(1, nt), "info": {k: float(v) for k, v in info.items()}}


LEVEL_TEXT = (
    "Bounded-exhaustive enumeration of (constraint x class x order x n_f = 3..6): every sum rule (Adler, GLS, Bjorken, light-by-light piece), every NLO closed form (F2, FL, F3, g1, g4, gL quark and gluon; "
    "point-wise on a 41-point z lattice and on 8 integer and real Mellin moments) and every documented inter-class identity is evaluated on the real coefficient-function objects with the reference quadrature "
    "(explicit plus prescription, delta = loc(0)) and compared with independently written textbook expressions / series coefficients."
    " The same sum rules are also evaluated, per parton, on the kernels the engine assembles (weights x classes from Combiner.collect_elems) for the beam pairs (neutrino, antineutrino) and (electron, positron) at n_f = 3..6; thorough adds a 285-point z lattice and 60 moments."
)
LEVEL_NOTE = (
    "Trusted: ref_nlo (my transcription of the textbook NLO coefficient functions and of the Larin-Vermaseren series), SciPy quad. z and N outside the lattices are not covered; NNLO/N3LO pieces are "
    "constrained only by the sum rules and the inter-class identities."
)
TECHNIQUE = "exhaustive enumeration of constraint x class x order x n_f cells with conformance to an executable reference (closed forms, sum-rule constants)"
