"""Import every yadism module so that all eagerly-compiled numba kernels land in the cache."""
import importlib
import pkgutil
import sys
import time

t0 = time.time()
import yadism  # noqa


n = 0
bad = []
for m in pkgutil.walk_packages(yadism.__path__, "yadism."):
    try:
        importlib.import_module(m.name)
        n += 1
    except Exception as e:  # import errors are C16's business, not the warm-up's
        bad.append((m.name, f"{type(e).__name__}: {e}"))
print(f"warm: imported {n} modules in {time.time()-t0:.1f}s; failed: {bad}")
