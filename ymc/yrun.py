"""Helpers to execute the real yadism on a cell and to look at what came back."""
import hashlib
import os
import sys
import traceback

import numpy as np

os.environ.setdefault("YADISM_SILENT_MODE", "1")
os.environ.setdefault("YADISM_LOG_LEVEL", "50")

import yadism  # noqa: E402
from yadism import log as ylog  # noqa: E402

ylog.silent_mode = True

from . import cards  # noqa: E402

PIDS = [22, -6, -5, -4, -3, -2, -1, 21, 1, 2, 3, 4, 5, 6]
PIDX = {p: i for i, p in enumerate(PIDS)}
REPO_SRC = os.path.join(os.environ.get("VERIF_REPO", "/repo"), "src")


def reset_memos():
    """Reset yadism's module-level memo so states are independent of visiting order."""
    try:
        from yadism.coefficient_functions.heavy import n3lo

        n3lo.interpolators.clear()
    except Exception:
        pass


_CARDLOG = {}  # "T.<field>" / "O.<field>" -> set of value labels seen by this worker since the last pop (configuration-alphabet coverage)


def _label(v):
    if isinstance(v, np.ndarray):
        return f"ndarray[{v.size}]#{hashlib.sha1(repr(v.tolist()).encode()).hexdigest()[:6]}"
    if isinstance(v, (list, tuple)):
        return f"list[{len(v)}]#{hashlib.sha1(repr(list(v)).encode()).hexdigest()[:6]}"
    if isinstance(v, dict):
        return "dict:" + ",".join(f"{k}={v[k]!r}" for k in sorted(v))[:60]
    return repr(v)


def log_cards(theory=None, obs=None):
    """record which values every card field takes in the runs a check executes (read-only)."""
    for pre, card in (("T.", theory), ("O.", obs)):
        if not isinstance(card, dict):
            continue
        for k, v in card.items():
            if k == "observables":
                if isinstance(v, dict):
                    for name, kins in v.items():
                        _CARDLOG.setdefault("O.observables", set()).add(str(name))
                        _CARDLOG.setdefault("O.points_per_observable", set()).add(repr(len(kins)) if hasattr(kins, "__len__") else "?")
                continue
            _CARDLOG.setdefault(pre + str(k), set()).add(_label(v))


def pop_cardlog():
    out = {k: sorted(v) for k, v in _CARDLOG.items()}
    _CARDLOG.clear()
    return out


def run(cell, obs_map=None):
    """Run yadism for a cell; returns the Output."""
    t = cards.theory(cell)
    o = cards.observables(cell, obs_map)
    log_cards(t, o)
    return yadism.run_yadism(t, o)


def runner(cell, obs_map=None):
    t = cards.theory(cell)
    o = cards.observables(cell, obs_map)
    log_cards(t, o)
    return yadism.Runner(t, o)


def tensors(res):
    """ESFResult -> dict order(tuple) -> (values, errors) as float arrays."""
    return {tuple(k): (np.asarray(v[0], dtype=float), np.asarray(v[1], dtype=float)) for k, v in res.orders.items()}


def out_digest(out, names=None):
    h = hashlib.sha256()
    for name in sorted(names if names is not None else [k for k in out if isinstance(out[k], list)]):
        v = out[name]
        if not isinstance(v, list):
            continue
        h.update(name.encode())
        for r in v:
            h.update(res_digest(r).encode())
    return h.hexdigest()[:16]


def res_digest(r):
    h = hashlib.sha256()
    h.update(repr((float(r.x), float(r.Q2), float(getattr(r, "y", -1.0)))).encode())
    for k in sorted(r.orders):
        v, e = r.orders[k]
        h.update(repr(tuple(k)).encode())
        h.update(np.ascontiguousarray(np.asarray(v, dtype=float)).tobytes())
        h.update(np.ascontiguousarray(np.asarray(e, dtype=float)).tobytes())
    return h.hexdigest()[:16]


def yadism_site(tb):
    """Innermost frame inside the yadism sources: 'relative/file.py:function'."""
    site = None
    for fr in traceback.extract_tb(tb):
        fn = fr.filename
        if "/yadism/" in fn and "/site-packages/" not in fn:
            rel = fn.split("/yadism/", 1)[1]
            site = f"{rel}:{fr.name}"
    return site


def innermost_site(tb):
    fr = traceback.extract_tb(tb)[-1]
    fn = fr.filename
    for marker in ("/site-packages/", "/yadism/", "/lib/python3"):
        if marker in fn:
            fn = fn.split(marker, 1)[1]
            break
    return f"{fn}:{fr.name}"


def classify_exception(e):
    """fingerprint fields for an exception raised by a yadism call."""
    tb = e.__traceback__
    msg = str(e)
    return {
        "exc": type(e).__name__,
        "site": yadism_site(tb) or "?",
        "inner": innermost_site(tb),
        "excmsg": msg[:160],
    }


def scale_sum(*arrays):
    """elementwise sum of |terms| used as the scale of a comparison."""
    s = 0.0
    for a in arrays:
        s = s + np.abs(a)
    return s


def maxrel(delta, scale, floor=1e-300):
    """max |delta| / max(scale, floor) — with scale an array or scalar."""
    d = np.abs(np.asarray(delta, dtype=float))
    s = np.maximum(np.asarray(scale, dtype=float), floor)
    if d.size == 0:
        return 0.0
    return float(np.max(d / s))


def raised_explicitly(e):
    """True iff the innermost traceback frame's source line is a literal `raise` statement."""
    fr = traceback.extract_tb(e.__traceback__)[-1]
    line = (fr.line or "").strip()
    return line.startswith("raise ") or line == "raise"
