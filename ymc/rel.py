"""Helpers for relation oracles between operator tensors."""
import re

import numpy as np

from . import cards, yrun

EXPLICIT = (ValueError, NotImplementedError)


def is_dispatch_rejection(e):
    return isinstance(e, ModuleNotFoundError) and (yrun.yadism_site(e.__traceback__) or "").endswith("kernels.py:import_local")


# runs a relation needs that failed in a way that is neither an explicit rejection of an unsupported configuration nor an open known finding:
# collected here per execution and turned into a violation of the running check by the engine (a check must not become vacuous because the runs it compares crash)
FAILED = []
_KNOWN_BLOCKED = re.compile(r"g1_nc' has no attribute '(GluonFL11|QuarkFL11|AsyNNNLL(Gluon|Singlet|NonSinglet))'")  # known finding C16-g1-N3LO-missing-classes
_KINEMATIC_SITES = ("esf/esf.py:__init__", "esf/exs.py:__init__", "esf/tmc.py:__init__", "esf/tmc.py:_convolve_FX")


def pop_failed():
    out = list(FAILED)
    FAILED.clear()
    return out


def _cellsum(cell, obs_map):
    c = {k: v for k, v in cell.items() if k not in ("slice", "xlab")}
    return f"{c} observables {sorted(obs_map)[:4]}"


def known_nonfinite(cell, key):
    """the open known finding C16-N3LO-heavy-grid-NaN: O(a_s^3) tensors of massive NC/EM runs (the shipped N3LO grids contain NaN)."""
    fns = cards.SCHEMES.get(cell.get("scheme", "ZM-VFNS"), (cell.get("scheme"), 0))[0]
    dis_order = cell.get("ptodis", cell.get("theory", {}).get("PTODIS")) or cell.get("pto", 0)
    return key[0] == 3 and dis_order == 3 and cell.get("process", "EM") in ("EM", "NC") and fns != "ZM-VFNS"


def note_nonfinite(cell, out, names=None):
    """non-finite entries in a result a check is about to use: recorded (-> violation of the running check) unless they are the open known finding."""
    for name in names or [n for n in out.keys() if isinstance(out.get(n), list)]:
        for res in out[name] or []:
            orders = getattr(res, "orders", None)
            if not orders:
                continue
            for key, (v, e) in orders.items():
                if not (np.all(np.isfinite(v)) and np.all(np.isfinite(e))) and not known_nonfinite(cell, tuple(key)):
                    FAILED.append({"exc": "non-finite", "site": f"order {tuple(key)}", "inner": name, "excmsg": f"{name} at x={res.x} Q2={res.Q2}: non-finite entries in order {tuple(key)}", "why": "non-finite result", "cell": _cellsum(cell, {name: None})})
                    return


def note_failure(e, cell, obs_names):
    """For harness code that catches exceptions of a real run itself: record the failure (-> violation of the running check) unless it is an
    accepted exclusion (dispatch rejection of polarised CC, explicit NotImplementedError/ValueError not coming from the kinematic validation,
    the open known finding). Returns the classification."""
    info = yrun.classify_exception(e)
    desc = _cellsum(cell, {n: None for n in obs_names})
    if isinstance(e, EXPLICIT):
        if not yrun.raised_explicitly(e):
            FAILED.append(dict(info, why="not raised by an explicit raise statement", cell=desc))
        elif info["site"] in _KINEMATIC_SITES:
            FAILED.append(dict(info, why="valid kinematics rejected", cell=desc))
    elif is_dispatch_rejection(e):
        pass
    elif not (info["exc"] == "AttributeError" and _KNOWN_BLOCKED.search(info["excmsg"])):
        FAILED.append(dict(info, why="unexpected exception", cell=desc))
    return info


def try_run(cell, obs_map):
    """Run; returns (out, status) with status in ok / rejected / blocked:<exc>:<site>.

    rejected = ValueError / NotImplementedError from a literal raise statement, or the dispatch rejection of polarised CC.
    Every lattice of the relation checks contains valid kinematics only, so a rejection coming from the kinematic validation, an
    'explicit' exception type produced by an internal lookup, and any other exception except the open known finding are recorded in FAILED.
    """
    try:
        out = yrun.run(cell, obs_map)
        note_nonfinite(cell, out, list(obs_map))
        return out, "ok"
    except EXPLICIT as e:
        info = yrun.classify_exception(e)
        if not yrun.raised_explicitly(e):
            FAILED.append(dict(info, why="not raised by an explicit raise statement", cell=_cellsum(cell, obs_map)))
        elif info["site"] in _KINEMATIC_SITES:
            FAILED.append(dict(info, why="valid kinematics rejected", cell=_cellsum(cell, obs_map)))
        return None, "rejected"
    except Exception as e:  # noqa
        if is_dispatch_rejection(e):
            return None, "rejected"
        info = yrun.classify_exception(e)
        if not (info["exc"] == "AttributeError" and _KNOWN_BLOCKED.search(info["excmsg"])):
            FAILED.append(dict(info, why="unexpected exception", cell=_cellsum(cell, obs_map)))
        return None, f"blocked:{info['exc']}:{info['site']}"


def compare_sum(lhs, terms, rtol, atol=0.0, keys=None, with_errors=False, gtol=None):
    """lhs, terms[i]: dict order -> (val, err). Checks lhs == sum(terms) per order key.

    Returns (list of (key, what, maxrel, where)), stats dict.
    Non-finite entries present on *both* sides at the same place are counted, not flagged
    (non-finiteness is C16's business); non-finite on one side only is flagged.
    """
    bad = []
    stats = {"maxrel": 0.0, "n_nonfinite_both": 0, "nonzero": False}
    allkeys = set(lhs)
    for t in terms:
        allkeys |= set(t)
    if keys is not None:
        allkeys = {k for k in allkeys if k in keys}
    for k in sorted(allkeys):
        if k not in lhs:
            bad.append((k, "order key missing on lhs", np.inf, None))
            continue
        for part in (0, 1) if with_errors else (0,):
            a = lhs[k][part]
            s = np.zeros_like(a)
            sc = np.abs(a).copy()
            for t in terms:
                if k in t:
                    s = s + t[k][part]
                    sc = sc + np.abs(t[k][part])
            fa, fs = np.isfinite(a), np.isfinite(s)
            both_bad = ~fa & ~fs
            stats["n_nonfinite_both"] += int(both_bad.sum())
            one_bad = fa ^ fs
            if one_bad.any():
                bad.append((k, f"non-finite on one side only ({'values' if part == 0 else 'errors'})", np.inf, np.argwhere(one_bad)[0].tolist()))
                continue
            m = fa & fs
            if not m.any():
                continue
            d = np.abs(a[m] - s[m])
            scm = np.where(np.isfinite(sc[m]), sc[m], 0.0)
            # rounding of the flavour-space contractions is relative to the largest entry of the tensor
            tol = atol + rtol * scm + (rtol if gtol is None else gtol) * (scm.max() if scm.size else 0.0)
            if part == 0 and np.any(a[m] != 0):
                stats["nonzero"] = True
            with np.errstate(divide="ignore", invalid="ignore"):
                den = scm + (scm.max() if scm.size else 0.0)
                r = np.where(den > 0, d / den, np.where(d > 0, np.inf, 0.0))
            mr = float(r.max()) if r.size else 0.0
            if part == 0:
                stats["maxrel"] = max(stats["maxrel"], mr if np.isfinite(mr) else 0.0)
            if np.any(d > tol):
                idx = int(np.argmax(d - tol))
                bad.append((k, f"{'values' if part == 0 else 'errors'} differ", float(d[idx]), idx))
    return bad, stats


def bit_identical(a, b, with_errors=True):
    """dict order->(val,err) bit-for-bit equal (NaN==NaN)."""
    if set(a) != set(b):
        return False, f"order keys differ: {sorted(set(a) ^ set(b))}"
    for k in a:
        for part in (0, 1) if with_errors else (0,):
            if not np.array_equal(a[k][part], b[k][part], equal_nan=True):
                d = np.abs(a[k][part] - b[k][part])
                return False, f"order {k} part {part} differs, max |delta| = {np.nanmax(d):.3e}"
    return True, ""
