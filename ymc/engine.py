"""ymc engine: bounded-exhaustive exploration with reference-model conformance.

A property module (ymc.props.cNN) provides

    ID            : "C07"
    RULE          : str   (how states are enumerated, what is non-trivial)
    ASSUMPTIONS   : list[str]
    states(tier, seed) -> list[dict]   complete enumeration of the bounded space
    execute(state) -> dict with keys
        violations : list of {"fp": {...}, "msg": str, "data": {...}}
        nontrivial : bool (or int: number of distinct non-trivial sub-cases)
        outcome    : str  digest of what was observed (vacuity detector)
        transitions: int  real executions performed (runs, kernel calls, method calls)
        info       : dict of floats aggregated by max (optional)
        sub        : int  number of sub-states enumerated inside (optional, default 1)
    optional: excluded(tier) -> dict rule->count ; finalize(results) -> list of violations

The engine shards the states over worker processes, aggregates counters,
matches violations against /verif/known_findings.json, confirms unmatched
violations in a fresh subprocess (determinism), writes replay files and the
evidence file, and prints VIOLATION / KNOWN-FINDING lines.
"""
import hashlib
import importlib
import json
import multiprocessing as mp
import os
import random
import re
import subprocess
import sys
import time
import traceback

VERIF = os.path.dirname(os.path.dirname(os.path.abspath(__file__)))
EVIDENCE_DIR = os.environ.get("VERIF_EVIDENCE_DIR") or os.path.join(VERIF, "evidence")
REPLAY_DIR = os.path.join(VERIF, "replays")
KNOWN_FILE = os.path.join(VERIF, "known_findings.json")


def canon(obj):
    return json.dumps(obj, sort_keys=True, default=_json_default)


def _json_default(o):
    import numpy as np

    if isinstance(o, (np.integer,)):
        return int(o)
    if isinstance(o, (np.floating,)):
        return float(o)
    if isinstance(o, np.ndarray):
        return o.tolist()
    if isinstance(o, (set, frozenset)):
        return sorted(o)
    if isinstance(o, tuple):
        return list(o)
    return repr(o)


def digest(obj):
    return hashlib.sha256(canon(obj).encode()).hexdigest()[:16]


def load_prop(pid):
    return importlib.import_module(f"ymc.props.{pid.lower()}")


# ---------------------------------------------------------------------------
# worker side


def _worker_init(pid):
    global _PROP
    os.environ.setdefault("PYTHONHASHSEED", "0")
    _PROP = load_prop(pid)
    if hasattr(_PROP, "worker_init"):
        _PROP.worker_init()


_WSEQ = 0


def _worker_run(args):
    global _WSEQ
    idx, state = args
    t0 = time.time()
    wseq = _WSEQ
    _WSEQ += 1
    try:
        res = _PROP.execute(state)
    except Exception as e:  # never silently dropped: a violation if the library raised, a harness error otherwise
        res = _exception_result(e)
    res["idx"] = idx
    res["wall"] = time.time() - t0
    res["wpid"] = os.getpid()
    res["wseq"] = wseq
    yr = sys.modules.get("ymc.yrun")
    if yr is not None and hasattr(yr, "pop_cardlog"):
        res["cards"] = yr.pop_cardlog()
    _attach_failed_runs(res)
    return res


def _exception_result(e):
    """An exception escaping execute(): if any frame of its traceback is inside yadism the library raised on a scenario that completes on
    the unchanged tree -> a violation of the running check (class library-exception, fingerprint = exception type + innermost yadism frame);
    an exception without any yadism frame is a defect of the harness itself (HARNESS-ERROR, exit 3)."""
    site = inner = None
    yr = sys.modules.get("ymc.yrun")
    if yr is not None:
        try:
            site = yr.yadism_site(e.__traceback__)
            inner = yr.innermost_site(e.__traceback__)
        except Exception:
            site = None
    text = f"{type(e).__name__}: {e}\n{traceback.format_exc()}"
    if site:
        return {
            "violations": [
                {
                    "fp": {"cls": "library-exception", "exc": type(e).__name__, "site": site, "inner": inner},
                    "fpkey": {"cls": "library-exception", "exc": type(e).__name__, "site": site},
                    "msg": f"the library raised {type(e).__name__} at {site} ({inner}) during this check's scenario: {str(e)[:200]}",
                }
            ],
            "nontrivial": True,
            "outcome": f"library-exception:{type(e).__name__}:{site}",
            "transitions": 1,
        }
    return {"violations": [], "harness_error": text, "nontrivial": False, "outcome": "harness_error", "transitions": 0}


def _attach_failed_runs(res):
    """real runs that a relation needed but that crashed / were wrongly rejected (collected by rel.try_run) become violations of the running check."""
    rl = sys.modules.get("ymc.rel")
    if rl is None or not hasattr(rl, "pop_failed"):
        return
    failed = rl.pop_failed()
    seen = set()
    for f in failed:
        k = (f["exc"], f["site"], f["why"])
        if k in seen or len(seen) >= 2:
            continue
        seen.add(k)
        res.setdefault("violations", []).append(
            {
                "fp": {"cls": "run-failed", "exc": f["exc"], "site": f["site"], "inner": f.get("inner"), "why": f["why"]},
                "fpkey": {"cls": "run-failed", "exc": f["exc"], "site": f["site"], "why": f["why"]},
                "msg": f"a real run this check needs failed ({f['why']}): {f['exc']} at {f['site']} ({f.get('inner')}): {f['excmsg'][:160]} :: cell {f['cell'][:300]}",
            }
        )
        res["nontrivial"] = res.get("nontrivial") or True


def _worker_sweep(args):
    """Process-history sweep: execute a chunk of states forward and then backward in ONE fresh process.

    In the backward sweep every state runs after every other state of the chunk has been executed at least once, so any
    state of the library that survives between executions (module/class level caches, mutated shared defaults) and
    changes a result is seen either by the oracle or as a difference between the two outcome digests of the same state.
    """
    pid, chunk, chunk_id = args
    _worker_init(pid)
    out = []
    first = {}
    for sweep, seq in (("fwd", chunk), ("bwd", list(reversed(chunk)))):
        for idx, state in seq:
            try:
                res = _PROP.execute(state)
            except Exception as e:
                res = _exception_result(e)
            _attach_failed_runs(res)
            oc = res.get("outcome")
            oc = canon(sorted(oc) if isinstance(oc, (list, tuple, set)) else oc)
            rec = {"idx": idx, "chunk": chunk_id, "sweep": sweep, "violations": res.get("violations", []), "harness_error": res.get("harness_error"), "outcome": oc}
            if sweep == "fwd":
                first[idx] = oc
            elif first.get(idx) != oc:
                rec["outcome_changed"] = True
            out.append(rec)
    return out


# ---------------------------------------------------------------------------
# known findings


def load_known():
    if not os.path.exists(KNOWN_FILE):
        return []
    with open(KNOWN_FILE) as f:
        return json.load(f)["findings"]


def _match_value(pattern, value):
    if isinstance(pattern, dict) and "re" in pattern:
        return re.search(pattern["re"], str(value)) is not None
    if isinstance(pattern, dict) and "in" in pattern:
        return value in pattern["in"]
    if isinstance(pattern, list):
        return value in pattern
    return pattern == value


def match_known(pid, fp, known):
    for k in known:
        if k.get("property") != pid or k.get("status") != "open":
            continue
        sig = k["signature"]
        if all(key in fp and _match_value(pat, fp[key]) for key, pat in sig.items()):
            return k
    return None


# ---------------------------------------------------------------------------
# main driver


def run_check(pid, tier="quick", seed=0, workers=None, replay=None, only=None):
    prop = load_prop(pid)
    t0 = time.time()
    if replay is not None:
        return run_replay(prop, replay)
    states = prop.states(tier, seed)
    if only is not None:
        states = [s for s in states if only in canon(s)]
    n = len(states)
    order = list(range(n))
    random.Random(seed).shuffle(order)
    workers = workers or int(os.environ.get("VERIF_WORKERS", min(16, os.cpu_count() or 1)))
    workers = max(1, min(workers, n))
    budget = float(os.environ.get("VERIF_BUDGET_S", getattr(prop, "BUDGET", {}).get(tier, 1e9)))

    results = [None] * n
    cap_hit = False
    chunks = max(1, min(8, n // (workers * 8) or 1))
    if workers == 1:
        _worker_init(pid)
        it = map(_worker_run, ((i, states[i]) for i in order))
        pool = None
    else:
        ctx = mp.get_context("spawn")
        pool = ctx.Pool(workers, initializer=_worker_init, initargs=(pid,))
        it = pool.imap_unordered(_worker_run, ((i, states[i]) for i in order), chunksize=chunks)
    done = 0
    try:
        for res in it:
            results[res["idx"]] = res
            done += 1
            if time.time() - t0 > budget:
                cap_hit = True
                break
    finally:
        if pool is not None:
            pool.terminate()
            pool.join()

    completed = [r for r in results if r is not None]
    # ---- process-history sweep (opt-in per property): a declared sub-lattice, fresh processes, forward + backward
    sweep_records = []
    sweep_chunks = []
    if getattr(prop, "HISTORY_SWEEP", False) and not cap_hit and n > 1 and os.environ.get("VERIF_NO_SWEEP") != "1":
        per = int(getattr(prop, "HISTORY_SWEEP_PER_PROCESS", 12))
        nproc = min(16, max(1, n // per))
        nstr = (nproc + 1) // 2
        # (a) strided chunks: every process sees states from all over the lattice
        stride = max(1, n // (nstr * per))
        sub = list(range(0, n, stride))[: nstr * per]
        sweep_chunks = [[(i, states[i]) for i in sub[k::nstr]] for k in range(nstr)]
        # (b) contiguous blocks of the enumeration: neighbours differ in the fastest-varying coordinates only, which is where
        #     a cache keyed with a missing field makes two different requests collide
        nblk = nproc - nstr
        for b in range(nblk):
            start = (b * n) // max(1, nblk) + (n // max(1, nblk)) // 3
            idxs = [i % n for i in range(start, start + per)]
            sweep_chunks.append([(i, states[i]) for i in dict.fromkeys(idxs)])
        sweep_chunks = [c for c in sweep_chunks if c]
        ctx = mp.get_context("spawn")
        with ctx.Pool(min(workers, nproc), maxtasksperchild=1) as sp:
            for recs in sp.imap_unordered(_worker_sweep, [(pid, ch, k) for k, ch in enumerate(sweep_chunks)]):
                sweep_records.extend(recs)
    violations = []
    harness_errors = []
    info = {}
    cardvals = {}
    outcomes = set()
    nontrivial = 0
    transitions = 0
    sub = 0
    for r in completed:
        st = states[r["idx"]]
        if r.get("harness_error"):
            harness_errors.append((st, r["harness_error"]))
        for v in r.get("violations", []):
            v = dict(v)
            v["state"] = st
            v["_idx"] = r["idx"]
            violations.append(v)
        nt = r.get("nontrivial", False)
        nontrivial += int(nt) if not isinstance(nt, bool) else (1 if nt else 0)
        oc = r.get("outcome")
        if isinstance(oc, (list, tuple, set)):
            outcomes.update(oc)
        else:
            outcomes.add(oc)
        transitions += int(r.get("transitions", 1))
        sub += int(r.get("sub", 1))
        for k, vals in (r.get("cards") or {}).items():
            cardvals.setdefault(k, set()).update(vals)
        for k, val in (r.get("info") or {}).items():
            if isinstance(val, (int, float)):
                if k.startswith("n_") or k.startswith("count_"):
                    info[k] = info.get(k, 0) + val
                else:
                    info[k] = max(info.get(k, val), val)
    n_sweep_exec = len(sweep_records)
    for rec in sweep_records:
        st = states[rec["idx"]]
        if rec.get("harness_error"):
            harness_errors.append((st, rec["harness_error"]))
        hist_states = None
        if rec.get("chunk") is not None:
            ch = sweep_chunks[rec["chunk"]]
            seq = [s_ for _, s_ in ch] + [s_ for _, s_ in reversed(ch)]
            # everything executed before this record in its process
            if rec["sweep"] == "fwd":
                k = [i for i, _ in ch].index(rec["idx"])
                hist_states = seq[:k]
            else:
                k = [i for i, _ in reversed(ch)].index(rec["idx"])
                hist_states = seq[: len(ch) + k]
        for v in rec.get("violations", []):
            v = dict(v)
            v["state"] = st
            v["_idx"] = rec["idx"]
            v["_history"] = hist_states
            v["msg"] = f"[process-history sweep, {rec['sweep']}] " + v.get("msg", "")
            violations.append(v)
        if rec.get("outcome_changed"):
            violations.append({
                "state": st,
                "_idx": rec["idx"],
                "_history": hist_states,
                "fp": {"cls": "history-dependent-outcome", "sweep": True},
                "fpkey": {"cls": "history-dependent-outcome"},
                "msg": "[process-history sweep] the same state gave two different outcome digests in one process (forward sweep vs backward sweep after all other states of its chunk): the result depends on what was executed before in the process",
                "_outcome_changed": True,
            })
    if hasattr(prop, "finalize"):
        for v in prop.finalize([(states[r["idx"]], r) for r in completed]):
            violations.append(v)

    # order in which each worker process executed its states (module-level state of the library can leak between executions)
    per_worker = {}
    for r in sorted(completed, key=lambda r: (r.get("wpid", 0), r.get("wseq", 0))):
        per_worker.setdefault(r.get("wpid", 0), []).append(r["idx"])
    pos = {i: (w, k) for w, lst in per_worker.items() for k, i in enumerate(lst)}

    known = load_known()
    exit_code = 0
    known_hits = {}
    new_viol = []
    for v in violations:
        fp = dict(v.get("fp", {}))
        k = match_known(pid, fp, known)
        if k is not None:
            known_hits.setdefault(k["id"], [k, 0])
            known_hits[k["id"]][1] += 1
        else:
            new_viol.append(v)

    for kid, (k, cnt) in sorted(known_hits.items()):
        print(f"KNOWN-FINDING: property={pid} {k['id']}: {k['what']} [{cnt} states]")

    # distinct fingerprints among new violations
    os.makedirs(REPLAY_DIR, exist_ok=True)
    seen_fp = {}
    for v in new_viol:
        key = digest(v.get("fpkey", v.get("fp", {})))
        seen_fp.setdefault(key, []).append(v)
    n_reported = 0
    for key, vs in seen_fp.items():
        v = vs[0]
        path = os.path.join(REPLAY_DIR, f"{pid}-{digest(v['state'])}.json")
        with open(path, "w") as f:
            json.dump(
                {
                    "property": pid,
                    "state": v["state"],
                    "fp": v.get("fp", {}),
                    "msg": v.get("msg", ""),
                    "data": v.get("data", {}),
                    "n_states_with_this_fingerprint": len(vs),
                },
                f,
                indent=1,
                default=_json_default,
            )
        if n_reported < 40:
            conf = ""
            if n_reported < 3 and os.environ.get("VERIF_NO_CONFIRM") != "1":
                if v.get("_outcome_changed"):
                    # reproduced by construction only with its history: replay = history + the state twice is not expressible; keep the full history
                    _with_history(path, v.get("_history") or [])
                    ok = True
                    conf = f" (history of {len(v.get('_history') or [])} earlier executions stored in the replay file)"
                else:
                    ok = confirm_in_subprocess(pid, path)
                if ok is False and v.get("_history"):
                    hist = minimise_history(pid, path, v["_history"])
                    if hist is not None:
                        conf = f" confirmed-in-fresh-process-after-a-history-of-{len(hist)}-earlier-executions (depends on state that survives between executions in one process)"
                        ok = True
                if ok is False and v.get("_idx") in pos:
                    # the state passes alone: replay it after the states the same worker process had executed before it
                    w, k = pos[v["_idx"]]
                    hist = [states[i] for i in per_worker[w][:k]]
                    hist = minimise_history(pid, path, hist)
                    if hist is not None:
                        conf = f" confirmed-in-fresh-process-after-a-history-of-{len(hist)}-earlier-executions (depends on state that survives between executions in one process)"
                        ok = True
                if ok is False:
                    print(f"NONDETERMINISM property={pid} replay={path} (violation did not reproduce in a fresh process, neither alone nor after the executions that preceded it in its worker)")
                    exit_code = max(exit_code, 2)
                    n_reported += 1
                    continue
                if not conf:
                    conf = " confirmed-in-fresh-process" if ok else ""
            print(f"VIOLATION property={pid} replay={path} :: {v.get('msg','')[:300]} [{len(vs)} states]{conf}")
            exit_code = max(exit_code, 1)
        n_reported += 1
    if new_viol and n_reported > 40:
        print(f"... {n_reported-40} more distinct violation fingerprints suppressed")
    if new_viol:
        exit_code = max(exit_code, 1)

    for st, he in harness_errors[:5]:
        print(f"HARNESS-ERROR property={pid} state={canon(st)[:300]}\n{he}")
    if harness_errors:
        exit_code = max(exit_code, 3)

    # vacuity guard: a run whose number of non-trivial states falls far below what the unchanged tree gives has not decided the property
    # (e.g. because a change turned most configurations into explicit rejections); floors are committed, never written at run time
    floor = None
    try:
        with open(os.path.join(VERIF, "nontrivial_floor.json")) as f:
            floor = json.load(f).get(pid, {}).get(tier)
    except FileNotFoundError:
        pass
    vac_ok = exit_code == 0  # a run that already reports violations has decided; vacuity is only asked of silent runs
    if vac_ok and floor is not None and not cap_hit and only is None and nontrivial < floor:
        print(f"VACUOUS property={pid} tier={tier}: only {nontrivial} non-trivial states (floor {floor}, measured on the unchanged tree): the exploration does not decide the property")
        exit_code = max(exit_code, 3)
    try:
        with open(os.path.join(VERIF, "nontrivial_floor.json")) as f:
            cfloors = json.load(f).get(pid, {}).get(tier + ":counters", {})
    except FileNotFoundError:
        cfloors = {}
    for k, fl in sorted(cfloors.items()):
        if vac_ok and not cap_hit and only is None and info.get(k, 0) < fl:
            print(f"VACUOUS property={pid} tier={tier}: counter {k} = {info.get(k, 0)} (floor {fl}, measured on the unchanged tree): the exploration does not decide the property")
            exit_code = max(exit_code, 3)

    wall = time.time() - t0
    # evidence ---------------------------------------------------------------
    samples = []
    if completed:
        idxs = sorted({0, n // 2, n - 1} & {r["idx"] for r in completed}) or [completed[0]["idx"]]
        for i in idxs:
            samples.append(states[i])
    excluded = prop.excluded(tier) if hasattr(prop, "excluded") else {}
    coverage = {
        "states": max(sub, len(completed)),
        "transitions": (max(transitions, 1) if completed else 0) + n_sweep_exec,
        "traces_validated_against_impl": max(sub, len(completed)),
        "samples": samples,
        "evaluations": max(sub, len(completed)),
        "distinct_nontrivial": nontrivial,
        "distinct_outcomes": len(outcomes),
        "rule": prop.RULE,
        "exhaustive": (not cap_hit) and len(completed) == n,
        "cap_hit": cap_hit,
        "top_level_states": n,
        "top_level_states_completed": len(completed),
        "excluded_by_rule": excluded,
        "known_findings_matched": {kid: cnt for kid, (k, cnt) in known_hits.items()},
        "new_violation_fingerprints": len(seen_fp),
        "measured": {k: info[k] for k in sorted(info)},
        "workers": workers,
        # configuration-alphabet coverage, measured: which values every theory/observable card field took in the real runs of this check
        "card_fields_varied": {k: {"distinct": len(v), "values": sorted(v)[:8]} for k, v in sorted(cardvals.items()) if len(v) > 1},
        "card_fields_constant": {k: sorted(v)[0] for k, v in sorted(cardvals.items()) if len(v) == 1},
        "process_history_sweep": {
            "enabled": bool(sweep_chunks),
            "processes": len(sweep_chunks),
            "states_in_sub_lattice": sum(len(c) for c in sweep_chunks),
            "executions": n_sweep_exec,
            "rule": "a declared sub-lattice (half of the processes: every k-th state of the enumeration, interleaved; other half: contiguous blocks of the enumeration) is executed forward and then backward inside fresh processes (one chunk per process); oracle on both executions and equality of the two outcome digests of each state",
        },
    }
    if hasattr(prop, "bounds"):
        coverage["bounds"] = prop.bounds(tier)
    ev = {
        "property_id": pid,
        "tier": tier,
        "seed": int(seed),
        "level": "model_checking",
        "coverage": coverage,
        "assumptions": list(prop.ASSUMPTIONS),
        "wall_s": round(wall, 2),
        "violations": len(new_viol),
    }
    write_evidence(pid, ev)
    print(
        f"[{pid}] tier={tier} seed={seed} states={coverage['states']} (top-level {len(completed)}/{n}) "
        f"transitions={coverage['transitions']} nontrivial={nontrivial} outcomes={len(outcomes)} "
        f"known={sum(c for _, c in known_hits.values())} new_violations={len(new_viol)} "
        f"exhaustive={coverage['exhaustive']} wall={wall:.1f}s"
    )
    if info:
        print(f"[{pid}] measured: " + ", ".join(f"{k}={info[k]:.3g}" for k in sorted(info)))
    return exit_code


def write_evidence(pid, ev):
    import jsonschema

    schema_path = "/root/.vp/EVIDENCE.schema.json"
    if not os.path.exists(schema_path):
        schema_path = os.path.join(VERIF, "schemas", "EVIDENCE.schema.json")
    with open(schema_path) as f:
        schema = json.load(f)
    ev = json.loads(json.dumps(ev, default=_json_default))
    jsonschema.validate(ev, schema)
    os.makedirs(EVIDENCE_DIR, exist_ok=True)
    tmp = os.path.join(EVIDENCE_DIR, f".{pid}.json.tmp")
    with open(tmp, "w") as f:
        json.dump(ev, f, indent=1, sort_keys=True)
    os.replace(tmp, os.path.join(EVIDENCE_DIR, f"{pid}.json"))


def confirm_in_subprocess(pid, path):
    """Re-execute one failing state in a fresh interpreter. True = still fails."""
    try:
        p = subprocess.run(
            [sys.executable, "-m", "ymc.cli", pid, "--replay", path],
            capture_output=True,
            text=True,
            timeout=900,
            cwd=VERIF,
        )
    except subprocess.TimeoutExpired:
        return None
    if p.returncode == 1:
        return True
    if p.returncode == 0:
        return False
    return None


def _with_history(path, hist):
    with open(path) as f:
        rep = json.load(f)
    rep["history"] = hist
    with open(path, "w") as f:
        json.dump(rep, f, indent=1, default=_json_default)


def minimise_history(pid, path, hist, budget=14):
    """Find a short list of earlier executions after which the state of `path` fails in a fresh process.

    Returns the (possibly shortened) history written into the replay file, or None if even the full history does not reproduce.
    """
    if not hist:
        return None
    _with_history(path, hist)
    if confirm_in_subprocess(pid, path) is not True:
        _with_history(path, [])
        return None
    # greedy halving (ddmin-lite): keep a half if the failure still reproduces with it
    cur = hist
    tries = 0
    chunk = max(1, len(cur) // 2)
    while chunk >= 1 and tries < budget and len(cur) > 1:
        shrunk = False
        for start in range(0, len(cur), chunk):
            cand = cur[:start] + cur[start + chunk :]
            if not cand:
                continue
            tries += 1
            _with_history(path, cand)
            if confirm_in_subprocess(pid, path) is True:
                cur = cand
                shrunk = True
                break
            if tries >= budget:
                break
        if not shrunk:
            chunk //= 2
    _with_history(path, cur)
    return cur


def run_replay(prop, path):
    with open(path) as f:
        rep = json.load(f)
    state = rep["state"]
    if hasattr(prop, "worker_init"):
        prop.worker_init()
    for h in rep.get("history", []):
        try:
            prop.execute(h)  # earlier executions in the same process; their own verdicts are not the point here
            _attach_failed_runs({})
        except Exception:
            pass
    try:
        res = prop.execute(state)
    except Exception as e:
        res = _exception_result(e)
        if res.get("harness_error"):
            raise
    _attach_failed_runs(res)
    vs = res.get("violations", [])
    if hasattr(prop, "finalize") and not vs and rep.get("fp", {}).get("finalize"):
        vs = prop.finalize([(state, res)])
    known = load_known()
    new = [v for v in vs if match_known(prop.ID, v.get("fp", {}), known) is None]
    for v in vs:
        tag = "VIOLATION" if v in new else "KNOWN-FINDING:"
        print(f"{tag} property={prop.ID} replay={path} :: {v.get('msg','')[:400]}")
    if not vs:
        print(f"[{prop.ID}] replay {path}: state passes")
    return 1 if new else 0
