"""Small analytic lhapdf-like PDF families used for contractions."""
import math

import numpy as np

PIDS = [22, -6, -5, -4, -3, -2, -1, 21, 1, 2, 3, 4, 5, 6]


class ToyPDF:
    """x f(x) = N_pid x^a (1-x)^b (1 + c x) with mild Q2 dependence; all flavours present."""

    def __init__(self, a=0.4, b=3.0, c=1.5, q2dep=True, missing=()):
        self.a, self.b, self.c, self.q2dep = a, b, c, q2dep
        self.missing = set(missing)
        self.calls = []

    def hasFlavor(self, pid):
        return pid not in self.missing

    def norm(self, pid):
        if pid == 21:
            return 2.0
        if pid == 22:
            return 0.01
        return {1: 0.8, 2: 1.3, 3: 0.3, 4: 0.12, 5: 0.05, 6: 0.01, -1: 0.25, -2: 0.2, -3: 0.22, -4: 0.1, -5: 0.04, -6: 0.008}[pid]

    def xfxQ2(self, pid, x, Q2):
        self.calls.append((pid, x, Q2))
        if x >= 1.0:
            return 0.0
        val = self.norm(pid) * x**self.a * (1 - x) ** (self.b + 0.3 * (abs(pid) % 2)) * (1 + self.c * x)
        if self.q2dep:
            val *= 1 + 0.05 * math.log(Q2 + 1.0)
        return val


class BasisPDF:
    """x f_pid(x) = x * p_j(x) for one pid, one interpolation basis function (spans the grid's PDF space)."""

    def __init__(self, interpolator, pid, j):
        self.bf = interpolator[j]
        self.pid = pid

    def hasFlavor(self, pid):
        return True

    def xfxQ2(self, pid, x, Q2):
        if pid != self.pid:
            return 0.0
        return x * self.bf(x)


def families():
    return [ToyPDF(0.4, 3.0, 1.5), ToyPDF(-0.1, 5.0, 0.0), ToyPDF(0.8, 2.0, 4.0)]
