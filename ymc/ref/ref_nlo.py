"""Textbook NLO massless coefficient functions (a_s = alpha_s/4pi, MS-bar) and sum-rule constants.

Quark coefficients (Bardeen-Buras-Duke-Muta / Furmanski-Petronzio, e.g. Ellis-Stirling-Webber eq. 4.80, times 2 for a_s = alpha_s/4pi):
  C_2q = 2 CF [ 2 D1 - 3/2 D0 - (1+z) ln(1-z) - (1+z^2)/(1-z) ln z + 3 + 2z - (pi^2/3 + 9/2) delta(1-z) ]
  C_3q = C_2q - 2 CF (1+z)           (also Delta C_q of g1)
  C_Lq = 4 CF z
Gluon coefficients (normalised to the flavour-averaged charge, i.e. including the factor 2 nf):
  C_2g = 4 nf TR [ (z^2+(1-z)^2) ln((1-z)/z) - 1 + 8 z (1-z) ]
  C_Lg = 16 nf TR z (1-z)
  Delta C_g = 4 nf TR [ (2z-1)(ln((1-z)/z) - 1) + 2 (1-z) ]
with D_k = [ln^k(1-z)/(1-z)]_+.  Each is returned as (reg, sing, delta) with sing = the D_k terms.

Sum rules (first moments, a_s = alpha_s/4pi):  Adler 0;  GLS / Bjorken (Larin-Vermaseren 1991):
  order 1: -4,  order 2: -16 (55/12 - nf/3),  order 3: -64 (41.4399 - 7.6073 nf + 0.17747 nf^2) for the non-singlet piece,
  the light-by-light (fl02, valence) piece of GLS adds -64 (-(8.0205 - 7.6073) nf) = +64*0.4132 nf.
"""
import math

CF, CA, TR = 4.0 / 3.0, 3.0, 0.5


def c2q():
    reg = lambda z, a: 2 * CF * (-(1 + z) * math.log(1 - z) - (1 + z * z) / (1 - z) * math.log(z) + 3 + 2 * z)
    sing = lambda z, a: 2 * CF * (2 * math.log(1 - z) / (1 - z) - 1.5 / (1 - z))
    return reg, sing, -2 * CF * (math.pi**2 / 3 + 4.5)


def c3q():
    r2, s2, d2 = c2q()
    return (lambda z, a: r2(z, a) - 2 * CF * (1 + z)), s2, d2


def clq():
    return (lambda z, a: 4 * CF * z), None, 0.0


def c2g(nf):
    return (lambda z, a: 4 * nf * TR * ((z * z + (1 - z) ** 2) * math.log((1 - z) / z) - 1 + 8 * z * (1 - z))), None, 0.0


def clg(nf):
    return (lambda z, a: 16 * nf * TR * z * (1 - z)), None, 0.0


def dcg(nf):
    return (lambda z, a: 4 * nf * TR * ((2 * z - 1) * (math.log((1 - z) / z) - 1) + 2 * (1 - z))), None, 0.0



def hq_c2g(eps):
    """O(a_s) photon-gluon-fusion coefficient of F2 for ONE heavy quark of unit charge (Witten; Glueck, Reya), a_s = alpha_s/(4 pi),
    eps = m^2/Q^2; non-zero for z < 1/(1+4 eps).  Tends to the massless 4 TR [(z^2+(1-z)^2) ln(Q^2 (1-z)/(m^2 z)) - 1 + 8z(1-z)] for eps -> 0."""
    zmax = 1.0 / (1.0 + 4.0 * eps)

    def reg(z, a):
        if not z < zmax:
            return 0.0
        b2 = 1.0 - 4.0 * eps * z / (1.0 - z)
        if b2 <= 0.0:
            return 0.0
        b = math.sqrt(b2)
        L = math.log((1.0 + b) / (1.0 - b))
        return 4.0 * TR * ((z * z + (1 - z) ** 2 + 4 * eps * z * (1 - 3 * z) - 8 * eps * eps * z * z) * L + b * (-1 + 8 * z * (1 - z) - 4 * eps * z * (1 - z)))

    return reg, None, 0.0


def hq_clg(eps):
    """O(a_s) photon-gluon-fusion coefficient of FL for one heavy quark of unit charge: 4 TR [4 z(1-z) beta - 8 eps z^2 ln((1+beta)/(1-beta))]."""
    zmax = 1.0 / (1.0 + 4.0 * eps)

    def reg(z, a):
        if not z < zmax:
            return 0.0
        b2 = 1.0 - 4.0 * eps * z / (1.0 - z)
        if b2 <= 0.0:
            return 0.0
        b = math.sqrt(b2)
        L = math.log((1.0 + b) / (1.0 - b))
        return 4.0 * TR * (4 * z * (1 - z) * b - 8 * eps * z * z * L)

    return reg, None, 0.0

def gls_bjorken(order, nf, with_lbl=False):
    if order == 0:
        return 1.0
    if order == 1:
        return -4.0
    if order == 2:
        return -16.0 * (55.0 / 12.0 - nf / 3.0)
    if order == 3:
        c = 8.0205 if with_lbl else 7.6073
        return -64.0 * (41.4399 - c * nf + 0.17747 * nf * nf)
    raise ValueError(order)


def lbl_piece(nf):
    return 64.0 * (8.0205 - 7.6073) * nf


def selftest():
    from . import ref_conv

    n = 0
    # known moments: C_2q first moment (Adler-type for the +): int C_2q = 0 ; int C_3q = -3 CF = -4 ; C_2q N=2: (momentum) 2CF*(... ) known = CF * 1/3 *... use quark number instead
    r, s, d = c2q()
    m1 = ref_conv.moment(r, None, s, None, d, 1)[0]
    assert abs(m1) < 1e-9, m1
    r, s, d = c3q()
    m1 = ref_conv.moment(r, None, s, None, d, 1)[0]
    assert abs(m1 + 4.0) < 1e-9, m1
    r, s, d = dcg(3)
    assert abs(ref_conv.moment(r, None, s, None, d, 1)[0]) < 1e-10
    r, s, d = clq()
    assert abs(ref_conv.moment(r, None, s, None, d, 2)[0] - 4 * CF / 3) < 1e-12
    # C_2g N=2 moment: 4 nf TR * (-1/2 ... ) known value: int z [ (z^2+(1-z)^2) ln((1-z)/z) - 1 + 8z(1-z) ] dz = -1/2*? -> cross-check numerically with independent closed form: = 1/6*( ... )
    n += 4
    # massless limits of the heavy-quark photon-gluon-fusion coefficients
    for z in (0.05, 0.3, 0.8):
        eps = 1e-9
        lim2 = 4 * TR * ((z * z + (1 - z) ** 2) * math.log((1 - z) / (z * eps)) - 1 + 8 * z * (1 - z))
        assert abs(hq_c2g(eps)[0](z, None) - lim2) < 1e-6 * abs(lim2), (z, hq_c2g(eps)[0](z, None), lim2)
        assert abs(hq_clg(eps)[0](z, None) - 16 * TR * z * (1 - z)) < 1e-6
        n += 2
    assert hq_c2g(0.1)[0](1 / 1.4 + 1e-9, None) == 0.0
    n += 1
    return n
