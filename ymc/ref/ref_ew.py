"""Reference electroweak / CKM parton-model weights (PDG review 'Structure functions', NC eqs. with gamma, gamma-Z, Z terms).

NC/EM, charged lepton beam e^-/e^+ with helicity-type polarisation P (lambda = -P for e^-, +P for e^+):
  F2-type (parity conserving: F2, g1 (2x g1)):  w_q = e_q^2 - 2 e_q gVq (gVe + l gAe) eta + (gVq^2 + gAq^2)(gVe^2 + gAe^2 + 2 l gVe gAe) eta^2
  F3-type (parity violating: xF3, g4, gL):      w_q = - 2 e_q gAq (gAe + l gVe) eta + 2 gVq gAq (2 gVe gAe + l (gVe^2 + gAe^2)) eta^2
  rows: quark +w_q, antiquark +w_q (F2-type) / -w_q (F3-type)
  with gV = T3 - 2 Q sin2thetaW, gA = T3, eta = Q2/(Q2+MZ2) / (4 s2w (1-s2w)) / (1 - propagator correction)
  (PDG writes  -(gVe +- lambda gAe) with the upper sign for e^+ and e_e = -1 absorbed: for e^-: lambda -> -lambda.)
Neutrino beams in NC: only the Z term survives (e_nu = 0), gVnu = gAnu = 1/2, same formula with l = +P (nu), -P (nubar): the rule the library documents
in leptonic_coupling; PDG gives no polarised-neutrino formula, so this part guards against regressions only.
EM: eta = 0.

CC (W exchange), unpolarised normalisation F2 = 2x(...):
  W^+ (nu, e^+): down-type quarks and up-type antiquarks;  W^- (nubar, e^-): up-type quarks and down-type antiquarks
  w_q = 2 * sum of |V_ij|^2 over the CKM elements that involve q and are active; xF3 rows: quark +, antiquark -.
  Active elements: in an n_f-flavour massless calculation all V_ij with both quarks among the n_f lightest;
  heavyness h in {charm, bottom, top}: the elements V_ij whose heavier quark is h (and h active); light group: V_ud, V_us.
"""
import math

EQ = {q: (2.0 / 3.0 if q % 2 == 0 else -1.0 / 3.0) for q in range(1, 7)}
T3 = {q: (0.5 if q % 2 == 0 else -0.5) for q in range(1, 7)}
UP = {2: 0, 4: 1, 6: 2}
DOWN = {1: 0, 3: 1, 5: 2}
PV_KINDS = {"F3", "g4", "gL"}
ZERO_AT_LO = {"FL", "gL"}


def eta_gZ(Q2, MZ, s2w, prc):
    if math.isinf(MZ):
        r = 0.0
    else:
        r = Q2 / (MZ * MZ + Q2)
    return r / (4.0 * s2w * (1.0 - s2w)) / (1.0 - prc)


def nc_weight(q, pv, process, projectile, pol, Q2, MZ, s2w, prc):
    """weight of quark flavour q (1..6) for the quark row; antiquark row = +w (pc) / -w (pv)."""
    eq, gvq, gaq = EQ[q], T3[q] - 2.0 * EQ[q] * s2w, T3[q]
    if projectile in ("electron", "positron"):
        ee, gve, gae = -1.0, -0.5 + 2.0 * s2w, -0.5
        lam = -pol if projectile == "electron" else pol
    else:
        ee, gve, gae = 0.0, 0.5, 0.5
        lam = pol if projectile == "neutrino" else -pol
    eta = 0.0 if process == "EM" else eta_gZ(Q2, MZ, s2w, prc)
    if not pv:
        w = ee * ee * eq * eq
        w += 2.0 * ee * eq * gvq * (gve + lam * gae) * eta
        w += (gvq * gvq + gaq * gaq) * (gve * gve + gae * gae + 2.0 * lam * gve * gae) * eta * eta
    else:
        w = 2.0 * ee * eq * gaq * (gae + lam * gve) * eta
        w += 2.0 * gvq * gaq * (2.0 * gve * gae + lam * (gve * gve + gae * gae)) * eta * eta
    return w



def nc_weight_split(q, process, projectile, pol, Q2, MZ, s2w, prc):
    """(VV, AA) parts of the parity-conserving weight of quark flavour q: VV collects e_q^2, e_q g_V^q and (g_V^q)^2, AA the (g_A^q)^2 term."""
    eq, gvq, gaq = EQ[q], T3[q] - 2.0 * EQ[q] * s2w, T3[q]
    if projectile in ("electron", "positron"):
        ee, gve, gae = -1.0, -0.5 + 2.0 * s2w, -0.5
        lam = -pol if projectile == "electron" else pol
    else:
        ee, gve, gae = 0.0, 0.5, 0.5
        lam = pol if projectile == "neutrino" else -pol
    eta = 0.0 if process == "EM" else eta_gZ(Q2, MZ, s2w, prc)
    lep = (gve * gve + gae * gae + 2.0 * lam * gve * gae) * eta * eta
    vv = ee * ee * eq * eq + 2.0 * ee * eq * gvq * (gve + lam * gae) * eta + gvq * gvq * lep
    aa = gaq * gaq * lep
    return vv, aa

def ckm2(ckm):
    """3x3 matrix of squared elements, rows u,c,t, columns d,s,b."""
    if isinstance(ckm, str):
        v = [float(t) for t in ckm.split()]
        m = [v[0:3], v[3:6], v[6:9]]
    else:
        m = [list(map(float, r)) for r in ckm]
    return [[e * e for e in r] for r in m]


def cc_elements(nf, heavyness):
    """set of active (up_pid, down_pid) CKM elements."""
    allp = [(u, d) for u in (2, 4, 6) for d in (1, 3, 5)]
    act = [(u, d) for (u, d) in allp if u <= nf and d <= nf]
    if heavyness in ("light", "total"):
        return act
    h = {"charm": 4, "bottom": 5, "top": 6}[heavyness]
    return [(u, d) for (u, d) in act if max(u, d) == h]


def cc_weights(projectile, nf, heavyness, ckm, pv):
    """dict pid -> weight (rows of the LO operator / x)."""
    V2 = ckm2(ckm)
    wplus = projectile in ("neutrino", "positron")  # W+ absorbed by the hadron
    out = {}
    for u, d in cc_elements(nf, heavyness):
        v = 2.0 * V2[UP[u]][DOWN[d]]
        if wplus:
            rows = ((d, 1.0), (-u, -1.0 if pv else 1.0))
        else:
            rows = ((u, 1.0), (-d, -1.0 if pv else 1.0))
        for pid, s in rows:
            out[pid] = out.get(pid, 0.0) + s * v
    return {p: w for p, w in out.items() if w != 0.0}


def lo_weights(kind, heavyness, process, projectile, nf, pol=0.0, Q2=30.0, MZ=91.1876, s2w=0.23126, prc=0.0, ckm=None):
    """dict pid -> weight such that the LO operator is x * w_pid * (Kronecker delta at a node / basis function)."""
    if kind in ZERO_AT_LO:
        return {}
    pv = kind in PV_KINDS
    if process == "CC":
        return {p: w for p, w in cc_weights(projectile, nf, heavyness, ckm, pv).items() if w != 0.0}
    if heavyness in ("light", "total"):
        qs = range(1, nf + 1)
    else:
        h = {"charm": 4, "bottom": 5, "top": 6}[heavyness]
        qs = [h] if h <= nf else []
    out = {}
    for q in qs:
        w = nc_weight(q, pv, process, projectile, pol, Q2, MZ, s2w, prc)
        if w != 0.0:
            out[q] = w
            out[-q] = -w if pv else w
    return out


def selftest():
    n = 0
    # pure photon: e_q^2
    for q in range(1, 7):
        assert abs(nc_weight(q, False, "EM", "electron", 0.3, 10.0, 91.0, 0.23, 0.0) - EQ[q] ** 2) < 1e-15
        assert nc_weight(q, True, "EM", "positron", 0.3, 10.0, 91.0, 0.23, 0.0) == 0.0
        n += 2
    # left-handed electron: pure-Z part must be gL_e^2 (gVq^2+gAq^2) eta^2 ; right-handed: gR_e^2
    s2w = 0.23
    for P, g in ((-1.0, (-0.5 + 2 * s2w) + (-0.5)), (1.0, (-0.5 + 2 * s2w) - (-0.5))):
        w = nc_weight(2, False, "NC", "electron", P, 1e12, 1.0, s2w, 0.0)  # eta -> 1/(4 s2w c2w)
        eta = eta_gZ(1e12, 1.0, s2w, 0.0)
        gvq, gaq = 0.5 - 4.0 / 3.0 * s2w, 0.5
        # full weight = (e_q e_e + g_e_hel * gVq eta)^2 + (g_e_hel gAq eta)^2 for a lepton of definite helicity
        full = (-(2.0 / 3.0) + g * gvq * eta) ** 2 + (g * gaq * eta) ** 2
        assert abs(w - full) < 1e-12 * abs(full), (P, w, full)
        n += 1
    # CKM unitarity-like: identity matrix, nf=3: only u<->d
    w = cc_weights("neutrino", 3, "light", "1 0 0 0 1 0 0 0 1", False)
    assert w == {1: 2.0, -2: 2.0}, w
    w = cc_weights("electron", 4, "charm", "1 0 0 0 1 0 0 0 1", True)
    assert w == {4: 2.0, -3: -2.0}, w
    n += 2
    return n
