"""Reference piecewise-Lagrange interpolation basis (independent of eko's compiled evaluators).

Definition (eko documentation, re-derived): the grid x_0 < ... < x_{n-1} splits (x_0, x_{n-1}] into
n-1 right-closed intervals I_i = (x_i, x_{i+1}] (I_0 also contains x_0). On I_i the interpolant is the
Lagrange polynomial of degree d through the block of d+1 consecutive nodes kmin..kmin+d with
kmin = max(0, i - h), h = d//2 for odd d and d//2 - 1 for even d (block shifted upwards), moved down if it
would run over the last node. The polynomial is in u = ln x for logarithmic grids and in u = x otherwise.
p_j is the cardinal function of node j. Evaluation is in Lagrange *product* form.
"""
import bisect
import math


class RefBasis:
    def __init__(self, xgrid, degree, is_log):
        self.x = [float(v) for v in xgrid]
        assert all(a < b for a, b in zip(self.x, self.x[1:]))
        self.n = len(self.x)
        self.d = int(degree)
        self.is_log = bool(is_log)
        self.u = [math.log(v) for v in self.x] if self.is_log else list(self.x)
        h = self.d // 2
        if self.d % 2 == 0:
            h -= 1
        self.blocks = []
        for i in range(self.n - 1):
            kmin = max(0, i - h)
            kmax = kmin + self.d
            if kmax > self.n - 1:
                kmax = self.n - 1
                kmin = kmax - self.d
            self.blocks.append((kmin, kmax))
        # per (j, interval) the product data
        self._data = {}
        for i, (kmin, kmax) in enumerate(self.blocks):
            for j in range(kmin, kmax + 1):
                ks = [k for k in range(kmin, kmax + 1) if k != j]
                self._data[(j, i)] = ([self.u[k] for k in ks], 1.0 / math.prod(self.u[j] - self.u[k] for k in ks))

    def interval(self, x):
        """index i of the right-closed interval containing x, or None outside [x_0, x_{n-1}]."""
        if x < self.x[0] or x > self.x[-1]:
            # tolerate the first node itself within rounding (the first interval is closed on the left)
            if abs((math.log(x) if self.is_log else x) - self.u[0]) < 2.3e-15 and x > 0:
                return 0
            return None
        if x == self.x[0]:
            return 0
        i = bisect.bisect_left(self.x, x) - 1  # x in (x_i, x_{i+1}]
        return min(max(i, 0), self.n - 2)

    def p(self, j, x):
        i = self.interval(x)
        if i is None:
            return 0.0
        dat = self._data.get((j, i))
        if dat is None:
            return 0.0
        uu = math.log(x) if self.is_log else x
        us, inv = dat
        r = inv
        for uk in us:
            r *= uu - uk
        return r

    def support(self, j):
        """(x_lo, x_hi): smallest closed interval outside of which p_j vanishes."""
        idx = [i for i in range(self.n - 1) if (j, i) in self._data]
        return self.x[min(idx)], self.x[max(idx) + 1]

    def interpolate(self, fvals, x):
        return sum(f * self.p(j, x) for j, f in enumerate(fvals))


def selftest():
    n = 0
    for grid, d, lg in (
        ([1e-3, 1e-2, 0.1, 0.3, 0.6, 1.0], 2, True),
        ([1e-5, 1e-4, 1e-3, 1e-2, 0.1, 0.3, 0.6, 0.85, 1.0], 3, True),
        ([0.05, 0.2, 0.35, 0.5, 0.7, 0.85, 1.0], 2, False),
        ([1e-4, 3e-4, 1e-3, 3e-3, 1e-2, 3e-2, 0.1, 0.2, 0.35, 0.5, 0.7, 0.85, 1.0], 4, True),
    ):
        b = RefBasis(grid, d, lg)
        # cardinality
        for j in range(b.n):
            for k in range(b.n):
                v = b.p(j, grid[k])
                assert abs(v - (1.0 if j == k else 0.0)) < 1e-12, (grid, j, k, v)
                n += 1
        # partition of unity and exact reproduction of polynomials of degree <= d in u
        for x in (grid[0] * 1.0000001, 0.5 * (grid[1] + grid[2]), 0.97 * grid[-1], math.sqrt(grid[2] * grid[3])):
            s = sum(b.p(j, x) for j in range(b.n))
            assert abs(s - 1) < 1e-10, (grid, x, s)
            for m in range(1, d + 1):
                uu = math.log(x) if lg else x
                tgt = uu**m
                got = sum(b.u[j] ** m * b.p(j, x) for j in range(b.n))
                assert abs(got - tgt) < 1e-9 * max(1, abs(tgt)), (grid, x, m, got, tgt)
                n += 1
        assert b.p(0, grid[0] * 0.999) == 0.0 and b.p(b.n - 1, 1.0000001) == 0.0
        n += 2
    return n
