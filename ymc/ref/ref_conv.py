"""Reference Mellin convolution of a distribution (reg, [sing]_+, delta) with a function.

    (C (x) g)(x) = int_x^1 dz/z C(z) g(x/z),   C = reg + [sing]_+ + delta * delta(1-z)

evaluated from the *definition* of the plus prescription:

    int_x^1 dz reg(z) g(x/z)/z
  + int_x^1 dz sing(z) [ g(x/z)/z - g(x) ]
  - g(x) * int_0^x dz sing(z)
  + delta * g(x)

Only the delta coefficient (the local part at x -> 0+) of the kernel is used, never loc(x) for x > 0:
the integral of the singular part below x is done by quadrature of sing itself.
Breakpoints are the images z = x / x_k of the reference basis' own nodes.

The integration borders follow yadism's documented convention (docs "Integration Note"):
[x (1+eps), z_max (1-eps)] with eps = 1e-10; the neglected slivers are part of the documented accuracy.
"""
import math

import numpy as np
from scipy.integrate import quad

EPS_BORDER = 1e-10
EPSABS = 1e-13
EPSREL = 1e-11


def _piecewise(f, pts, limit=200):
    tot = 0.0
    err = 0.0
    for a, b in zip(pts[:-1], pts[1:]):
        if not b > a:
            continue
        v, e = quad(f, a, b, epsabs=EPSABS, epsrel=EPSREL, limit=limit)
        tot += v
        err += e
    return tot, err


def sing_integral_0_x(sing, sargs, x):
    """int_0^x sing(z) dz by quadrature of sing itself (log-singular at 0 allowed)."""
    if sing is None or x <= 0:
        return 0.0, 0.0
    pts = [0.0] + [p for p in (1e-6, 1e-3, 0.1, 0.5, 0.9, 0.99, 0.999, 0.9999) if p < x] + [x]
    return _piecewise(lambda z: sing(z, sargs), pts)


def convolve(reg, rargs, sing, sargs, delta, g, x, support, nodes, mirror_borders=True, extra_breaks=()):
    """Returns (value, error estimate).

    g        : callable y -> g(y), zero outside `support` = (lo, hi)
    nodes    : breakpoints of g in y (sorted)
    """
    lo, hi = support
    if x >= 1 - EPS_BORDER or x >= hi:
        # empty integration domain (documented border); at x = hi, g(x/z) = 0 for z < 1
        if x >= 1 - EPS_BORDER:
            return 0.0, 0.0
    gx = g(x)
    val = 0.0
    err = 0.0
    # z-range where g(x/z) != 0: x/hi <= z <= min(1, x/lo)
    zmin_supp = max(x, x / hi)
    zmax_supp = min(1.0, x / lo) if lo > 0 else 1.0
    if mirror_borders:
        z_lo = x * (1 + EPS_BORDER)
        z_hi = min(max(x / n for n in nodes if n > 0), 1.0) * (1 - EPS_BORDER)
    else:
        z_lo, z_hi = x, 1.0
    bps = sorted({x / n for n in nodes if n > 0 and z_lo < x / n < z_hi})
    # refine towards z -> 1 where the plus-prescription integrand varies fastest
    extra = [1 - 10.0**-k for k in (1, 2, 3, 4, 6, 8)] + [float(b) for b in extra_breaks]
    if reg is not None or sing is not None:

        def integrand(z):
            if not z < 1.0:
                return 0.0
            y = x / z
            h = g(y) / z if (lo <= y <= hi) else 0.0
            r = 0.0
            if reg is not None and h != 0.0:
                r += reg(z, rargs) * h
            if sing is not None:
                r += sing(z, sargs) * (h - gx)
            return r

        if sing is None or gx == 0.0:
            a, b = max(z_lo, zmin_supp), min(z_hi, zmax_supp)
        else:
            a, b = z_lo, z_hi
        if b > a:
            pts = [a] + [p for p in sorted(set(bps + extra)) if a < p < b] + [b]
            v, e = _piecewise(integrand, pts)
            val += v
            err += e
    if gx != 0.0:
        if sing is not None:
            s, e = sing_integral_0_x(sing, sargs, x)
            val -= gx * s
            err += abs(gx) * e
        val += delta * gx
    return val, err


def moment(reg, rargs, sing, sargs, delta, N):
    """Mellin moment int_0^1 z^(N-1) C(z) dz of the distribution."""
    val = 0.0
    err = 0.0
    pts = [0.0, 1e-8, 1e-5, 1e-3, 1e-2, 0.1, 0.3, 0.6, 0.9, 0.99, 0.999, 0.9999, 0.999999, 1.0]
    if reg is not None:
        v, e = _piecewise(lambda z: reg(z, rargs) * z ** (N - 1) if 0.0 < z < 1.0 else 0.0, pts)
        val += v
        err += e
    if sing is not None:
        v, e = _piecewise(lambda z: sing(z, sargs) * (z ** (N - 1) - 1.0) if 0.0 < z < 1.0 else 0.0, pts)
        val += v
        err += e
    return val + delta, err


def selftest():
    n = 0
    # P_qq^(0)/CF-like distribution: 2/(1-z)_+ - (1+z) + 3/2 delta ; moments: N=1 -> 0, N=2 -> -4/3
    reg = lambda z, a: -(1 + z)
    sing = lambda z, a: 2.0 / (1 - z)
    m1, _ = moment(reg, None, sing, None, 1.5, 1)
    m2, _ = moment(reg, None, sing, None, 1.5, 2)
    assert abs(m1) < 1e-10, m1
    assert abs(m2 + 4.0 / 3.0) < 1e-10, m2
    n += 2
    # convolution with g(y) = y^a on (0,1]: (C (x) g)(x) = x^a * M[C](a+... ) : int_x^1 dz/z C(z) (x/z)^a
    # for smooth g defined on the whole (0,1] with g(y)=y^2: int_x^1 dz/z C(z) x^2/z^2
    a = 2.0
    g = lambda y: y**a
    x = 0.3
    v, e = convolve(reg, None, sing, None, 1.5, g, x, (1e-12, 1.0), [0.5, 1.0], mirror_borders=False)
    # closed form: x^a [ int_x^1 dz z^{-a-1} reg(z) + int_x^1 dz 2 (z^{-a-1} - 1)/(1-z) - int_0^x 2/(1-z) + 1.5 ]
    I1, _ = quad(lambda z: -(1 + z) * z ** (-a - 1), x, 1)
    I2, _ = quad(lambda z: 2 * (z ** (-a - 1) - 1) / (1 - z), x, 1)
    I3 = -2 * math.log(1 - x)
    ref = x**a * (I1 + I2 - I3 + 1.5)
    assert abs(v - ref) < 1e-9 * abs(ref), (v, ref)
    n += 1
    # delta only
    v, e = convolve(None, None, None, None, 2.5, g, 0.4, (1e-12, 1.0), [1.0])
    assert abs(v - 2.5 * 0.16) < 1e-15
    n += 1
    # log^k plus distributions: D_k = [ln^k(1-z)/(1-z)]_+ has first moment 0
    for k in (1, 2, 3):
        m, _ = moment(None, None, lambda z, a_, k=k: math.log(1 - z) ** k / (1 - z), None, 0.0, 1)
        assert abs(m) < 1e-12
        m, _ = moment(None, None, lambda z, a_, k=k: math.log(1 - z) ** k / (1 - z), None, 0.0, 2)
        # int_0^1 (z-1) ln^k(1-z)/(1-z) = -int_0^1 ln^k(t) dt = -(-1)^k k!
        assert abs(m + (-1) ** k * math.factorial(k)) < 1e-9, (k, m)
        n += 2
    return n
