"""Reference target-mass-correction formulas at operator level.

With mu = M^2/Q^2, rho = sqrt(1 + 4 x^2 mu), xi = 2x/(1+rho) (Nachtmann variable) and the *normalised observables*
F2, FL, G3 = x F3, G1 = 2 x g1 as the library defines its kinds:

 Schienbein et al. (J.Phys.G35:053101) eqs. (22)-(24), Georgi-Politzer:
   F2^TMC(x) = x^2/(xi^2 rho^3) F2(xi) + 6 mu x^3/rho^4 h2(xi) + 12 mu^2 x^4/rho^5 g2(xi)
   FL^TMC(x) = x^2/(xi^2 rho)   FL(xi) + 4 mu x^3/rho^2 h2(xi) +  8 mu^2 x^4/rho^3 g2(xi)
   F3^TMC(x) = x/(xi rho^2) F3(xi) + 2 mu x^2/rho^3 h3(xi),  h3 = int_xi^1 du F3(u)/u
       => G3^TMC(x) = x^2/(xi^2 rho^2) G3(xi) + 2 mu x^3/rho^3 int_xi^1 du G3(u)/u^2
   h2(xi) = int_xi^1 du F2(u)/u^2,  g2(xi) = int_xi^1 du (u - xi) F2(u)/u^2
 Bluemlein-Tkabladze / Accardi-Melnitchouk (g1):
   g1^TMC(x) = x/(xi rho^3) g1(xi) + 4 mu x^2/rho^4 [ (x+xi)/xi int_xi^1 du/u g1(u) + (rho^2-3)/(2 rho) int_xi^1 du/u ln(u/xi) g1(u) ]
       => G1^TMC(x) = 2x { x/(xi rho^3) G1(xi)/(2 xi) + 4 mu x^2/rho^4 [ (x+xi)/xi K1 + (rho^2-3)/(2 rho) K2 ] },
          K1 = int du G1(u)/(2u^2), K2 = int du ln(u/xi) G1(u)/(2u^2)
 modes: 3 = exact (above); 1 = APFEL: g2 (resp. K2) dropped; 2 = approximate:
   F2: x^2/(xi^2 rho^3) F2(xi) [1 + 6 mu x xi/rho (1-xi)^2];  G3: x^2/(xi^2 rho^2) G3(xi) [1 - mu x xi/rho (1-xi) ln xi]   (Schienbein eqs. 4.x)
   FL, G1: integrands evaluated at the lower end: h2 ~ F2(xi)(1-xi)/xi, g2 ~ F2(xi)(-ln xi - 1 + xi), K1 ~ G1(xi)(1-xi)/(2 xi), K2 ~ G1(xi)(1/xi - 1 + ln xi)/2

At operator level a structure function between nodes is represented by its values at the nodes interpolated with the basis:
   int_xi^1 du w(u) F(u) = sum_j W_j F(x_j),  W_j = int_xi^1 du w(u) p_j(u)   (reference quadrature on the reference basis).
"""
import math

import numpy as np
from scipy.integrate import quad


def kin(x, Q2, M):
    mu = M * M / Q2
    rho = math.sqrt(1.0 + 4.0 * x * x * mu)
    xi = 2.0 * x / (1.0 + rho)
    return mu, rho, xi


def x_of_xi(xi, Q2, M):
    mu = M * M / Q2
    return xi / (1.0 - mu * xi * xi)


def node_weights(basis, xi, w):
    """W_j = int_xi^1 du w(u) p_j(u) piecewise between nodes."""
    n = basis.n
    W = np.zeros(n)
    pts = [xi] + [v for v in basis.x if v > xi]
    if pts[-1] < basis.x[-1]:
        pts.append(basis.x[-1])
    for j in range(n):
        lo, hi = basis.support(j)
        if hi <= xi:
            continue
        tot = 0.0
        for a, b in zip(pts[:-1], pts[1:]):
            if b <= lo or a >= hi or not b > a:
                continue
            v, _ = quad(lambda u: w(u) * basis.p(j, u), a, b, epsabs=1e-14, epsrel=1e-12, limit=200)
            tot += v
        W[j] = tot
    return W


def predict(kind, mode, x, Q2, M, basis, raw_at_xi, raw_nodes):
    """raw_at_xi: dict kind -> tensor O(xi) (14 x n); raw_nodes: dict kind -> list over nodes j of tensors O(x_j).
    Returns (prediction tensor, scale tensor)."""
    mu, rho, xi = kin(x, Q2, M)

    def integral(k, w):
        W = node_weights(basis, xi, w)
        tot = np.zeros_like(raw_at_xi[k])
        sc = np.zeros_like(raw_at_xi[k])
        for j, Wj in enumerate(W):
            if Wj != 0.0:
                tot = tot + Wj * raw_nodes[k][j]
                sc = sc + abs(Wj) * np.abs(raw_nodes[k][j])
        # absolute accuracy of the node weights: both quadratures stop at epsabs ~1e-13, i.e. 2e-13 x the node operators
        sc = sc + (2e-13 / 5e-7) * sum(np.abs(t) for t in raw_nodes[k])  # the check multiplies the scale by rtol = 5e-7
        return tot, sc

    terms = []
    if kind == "F2":
        pre = x * x / (xi * xi * rho**3)
        if mode == 2:
            terms.append((pre * (1.0 + 6.0 * mu * x * xi / rho * (1.0 - xi) ** 2), raw_at_xi["F2"], None))
        else:
            terms.append((pre, raw_at_xi["F2"], None))
            terms.append((6.0 * mu * x**3 / rho**4,) + integral("F2", lambda u: 1.0 / (u * u)))
            if mode == 3:
                terms.append((12.0 * mu * mu * x**4 / rho**5,) + integral("F2", lambda u: (u - xi) / (u * u)))
    elif kind == "FL":
        pre = x * x / (xi * xi * rho)
        terms.append((pre, raw_at_xi["FL"], None))
        if mode == 2:
            a = 4.0 * mu * x * xi / rho * (1.0 - xi) + 8.0 * (mu * x * xi / rho) ** 2 * (-math.log(xi) - 1.0 + xi)
            terms.append((pre * a, raw_at_xi["F2"], None))
        else:
            terms.append((4.0 * mu * x**3 / rho**2,) + integral("F2", lambda u: 1.0 / (u * u)))
            if mode == 3:
                terms.append((8.0 * mu * mu * x**4 / rho**3,) + integral("F2", lambda u: (u - xi) / (u * u)))
    elif kind == "F3":
        pre = x * x / (xi * xi * rho**2)
        if mode == 2:
            terms.append((pre * (1.0 - mu * x * xi / rho * (1.0 - xi) * math.log(xi)), raw_at_xi["F3"], None))
        else:
            terms.append((pre, raw_at_xi["F3"], None))
            terms.append((2.0 * mu * x**3 / rho**3,) + integral("F3", lambda u: 1.0 / (u * u)))
    elif kind == "g1":
        c0 = 2.0 * x * x / (xi * rho**3) / (2.0 * xi)
        ck = 2.0 * x * 4.0 * mu * x * x / rho**4
        f1 = (x + xi) / xi
        f2 = (rho * rho - 3.0) / (2.0 * rho)
        if mode == 2:
            k1 = (1.0 - xi) / (2.0 * xi)
            k2 = (1.0 / xi - 1.0 + math.log(xi)) / 2.0
            terms.append((c0 + ck * (f1 * k1 + f2 * k2), raw_at_xi["g1"], None))
        else:
            terms.append((c0, raw_at_xi["g1"], None))
            terms.append((ck * f1,) + integral("g1", lambda u: 0.5 / (u * u)))
            if mode == 3:
                terms.append((ck * f2,) + integral("g1", lambda u: 0.5 * math.log(u / xi) / (u * u)))
    else:
        raise ValueError(kind)
    pred = 0.0
    scale = 0.0
    for c, t, sc in terms:
        pred = pred + c * t
        scale = scale + abs(c) * (np.abs(t) if sc is None else sc)
    return pred, scale


def selftest():
    from . import ref_basis

    n = 0
    b = ref_basis.RefBasis([1e-3, 1e-2, 0.1, 0.3, 0.6, 1.0], 2, True)
    # partition of unity: sum_j W_j = int_xi^1 w(u) du
    xi = 0.2
    W = node_weights(b, xi, lambda u: 1.0 / (u * u))
    assert abs(W.sum() - (1 / xi - 1)) < 1e-10, W.sum()
    W = node_weights(b, xi, lambda u: (u - xi) / (u * u))
    assert abs(W.sum() - (-math.log(xi) - 1 + xi)) < 1e-10
    # M -> 0: xi = x, prefactors 1
    mu, rho, x2 = kin(0.3, 10.0, 0.0)
    assert mu == 0 and rho == 1 and x2 == 0.3
    # inverse
    for x in (0.1, 0.5, 0.9):
        _, _, xi = kin(x, 2.0, 0.938)
        assert abs(x_of_xi(xi, 2.0, 0.938) - x) < 1e-14
    n += 6
    return n
