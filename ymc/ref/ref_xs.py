"""Reference coefficients (a, b, c) of sigma = a F2 + b FL + c xF3 for the ten cross-section kinds.

Written from docs/source/theory/intro.rst (section "Cross sections"):
    sigma = N ( F2 - yL/y+ FL + (-1)^l y-/y+ xF3 ),  l = 0 lepton, 1 antilepton
with the per-kind N, y+, y-, yL given there; 2xF1 = F2 - FL and 2xg5 = g4 - gL from the "kinds" section.
XSHERANCAVG (lepton-charge average) is the XSHERANC combination without the xF3 term.
XSFPFCC: the docs' normalisation is G_F^2 / (4 pi x (1+Q2/MW2)^2) y+ (standard neutrino CC cross section,
PDG eq. for d2sigma/dxdQ2 with eta_CC = 4 eta_W), converted to pb.
"""
import math

GEV2_TO_CM2_1E38 = 3.893793e10  # GeV^-2 -> 10^-38 cm^2


def coeffs(kind, x, Q2, y, projectile, MP, MW, GF):
    sgn = -1.0 if projectile in ("positron", "antineutrino") else 1.0
    yp = 1.0 + (1.0 - y) ** 2
    ym = 1.0 - (1.0 - y) ** 2
    yL = y * y
    if kind in ("F1", "g5"):
        return (1.0, -1.0, 0.0)
    if kind == "XSHERANC":
        return (1.0, -yL / yp, sgn * ym / yp)
    if kind == "XSHERANCAVG":
        return (1.0, -yL / yp, 0.0)
    if kind == "XSHERACC":
        N = yp / 4.0
        return (N, -N * yL / yp, sgn * N * ym / yp)
    if kind == "FW":
        yLw = y * y / (2.0 * (y * y / 2.0 + (1.0 - y) - (MP * x * y) ** 2 / Q2))
        return (1.0, -yLw, 0.0)
    if kind == "XSFPFCC":
        N = (GEV2_TO_CM2_1E38 / 100.0) * GF**2 / (4.0 * math.pi * x * (1.0 + Q2 / MW**2) ** 2) * yp
        return (N, -N * yL / yp, sgn * N * ym / yp)
    ypc = yp - 2.0 * (x * y * MP) ** 2 / Q2
    if kind == "XSCHORUSCC":
        N = GEV2_TO_CM2_1E38 * GF**2 * MP / (2.0 * math.pi * (1.0 + Q2 / MW**2) ** 2) * ypc
    elif kind == "XSNUTEVCC":
        N = 100.0 / (2.0 * (1.0 + Q2 / MW**2) ** 2) * ypc
    elif kind == "XSNUTEVNU":
        N = GEV2_TO_CM2_1E38 * GF**2 * MP / (2.0 * math.pi) * ypc
    else:
        raise ValueError(kind)
    return (N, -N * yL / ypc, sgn * N * ym / ypc)


def selftest():
    a, b, c = coeffs("XSHERANC", 0.1, 10.0, 1.0, "electron", 0.938, 80.4, 1.17e-5)
    assert (a, b, c) == (1.0, -1.0, 1.0)
    a, b, c = coeffs("XSHERANC", 0.1, 10.0, 1.0, "positron", 0.938, 80.4, 1.17e-5)
    assert c == -1.0
    a, b, c = coeffs("XSHERACC", 0.1, 10.0, 0.5, "electron", 0.938, 80.4, 1.17e-5)
    assert abs(a - 1.25 / 4) < 1e-15 and abs(b + 0.25 / 4) < 1e-15 and abs(c - 0.75 / 4) < 1e-15
    return 3
