"""Reference for applying a PDF to an output, and an independent strong coupling.

prediction = sum over stored orders (k,l,i,j) of
    a_s(xiR*Q)^k * alpha(xiR*Q)^l * ln(1/xiR^2)^i * ln(1/xiF^2)^j * sum_{pid,n} O[pid,n] * xf_pid(x_n, xiF^2 Q2) / x_n
with a_s = alpha_s/4pi; partons the PDF does not provide (hasFlavor false) contribute 0.

alpha_s reference: numerical solution (RK) of  da/dln(mu2) = -(beta0 a^2 + beta1 a^3 + beta2 a^4)  truncated at PTO+1 loops,
starting from alphas at Qref with nfref flavours, walking through the heavy-quark matching scales (k_q m_q)^2 to the
requested number of flavours; at each crossing the pole-mass matching condition
    a^(n+1) = a^(n) [1 + c11 L a + (c20 + c21 L + c22 L^2) a^2],  L = ln(k_q^2), c11 = 2/3, c20 = 14/3, c21 = 38/3, c22 = 4/9
is applied up to relative order PTO (its perturbative inverse downwards).
Number of flavours: FFNS/FFN0/FONLL-*: NfFF at every scale; ZM-VFNS: 3 + #{q : (k_q m_q)^2 <= muR^2}.
"""
import math

import numpy as np
from scipy.integrate import solve_ivp


def beta(nf):
    return (11.0 - 2.0 * nf / 3.0, 102.0 - 38.0 * nf / 3.0, 2857.0 / 2.0 - 5033.0 * nf / 18.0 + 325.0 * nf * nf / 54.0)


def evolve(a, nf, mu2_from, mu2_to, loops):
    if mu2_from == mu2_to:
        return a
    b = beta(nf)[:loops]

    def rhs(t, y):
        aa = y[0]
        return [-sum(bk * aa ** (k + 2) for k, bk in enumerate(b))]

    sol = solve_ivp(rhs, (math.log(mu2_from), math.log(mu2_to)), [a], method="DOP853", rtol=1e-12, atol=1e-16)
    return float(sol.y[0, -1])


def match(a, L, pto, up):
    c11, c20, c21, c22 = 2.0 / 3.0, 14.0 / 3.0, 38.0 / 3.0, 4.0 / 9.0
    if not up:
        # perturbative inverse
        d11, d20, d21, d22 = -c11, -c20, -c21, 2.0 * c11 * c11 - c22
        c11, c20, c21, c22 = d11, d20, d21, d22
    f = 1.0
    if pto >= 1:
        f += a * c11 * L
    if pto >= 2:
        f += a * a * (c20 + c21 * L + c22 * L * L)
    return a * f


def thresholds(theory):
    return [(theory[f"m{q}"] * theory[f"k{q}Thr"]) ** 2 for q in "cbt"]


def nf_at(theory, mu2):
    fns = theory["FNS"]
    if "FFNS" in fns or "FFN0" in fns:
        return theory["NfFF"]
    if fns == "ZM-VFNS":
        return 3 + sum(1 for t in thresholds(theory) if t <= mu2)
    raise ValueError(fns)


def alpha_s(theory, mu, nf_to=None):
    """alpha_s(mu) for the theory card (reference)."""
    pto = theory["PTO"]
    loops = pto + 1
    mu2 = mu * mu
    if nf_to is None:
        nf_to = nf_at(theory, mu2)
    T = thresholds(theory)  # T[0]: 3->4, T[1]: 4->5, T[2]: 5->6
    L = [math.log(theory[f"k{q}Thr"] ** 2) for q in "cbt"]
    a = theory["alphas"] / (4.0 * math.pi)
    nf = theory["nfref"]
    s = theory["Qref"] ** 2
    while nf < nf_to:
        t = T[nf - 3]
        a = evolve(a, nf, s, t, loops)
        a = match(a, L[nf - 3], pto, up=True)
        s = t
        nf += 1
    while nf > nf_to:
        t = T[nf - 4]
        a = evolve(a, nf, s, t, loops)
        a = match(a, L[nf - 4], pto, up=False)
        s = t
        nf -= 1
    a = evolve(a, nf, s, mu2, loops)
    return 4.0 * math.pi * a


def predict(orders, pids, xgrid, pdf, Q2, a_s, alpha_qed, xiR, xiF):
    """orders: dict key -> (values, errors). Returns (result, error)."""
    muF2 = Q2 * xiF * xiF
    f = np.zeros((len(pids), len(xgrid)))
    for i, pid in enumerate(pids):
        if not pdf.hasFlavor(pid):
            continue
        for n, x in enumerate(xgrid):
            f[i, n] = pdf.xfxQ2(pid, x, muF2) / x
    LR = math.log(1.0 / (xiR * xiR))
    LF = math.log(1.0 / (xiF * xiF))
    res = err = 0.0
    for (k, l, i, j), (v, e) in orders.items():
        pre = a_s**k * alpha_qed**l * (LR**i if i else 1.0) * (LF**j if j else 1.0)
        res += pre * float(np.sum(np.asarray(v) * f))
        err += pre * float(np.sum(np.asarray(e) * f))
    return res, err


def selftest():
    # one-loop closed form: a(mu2) = a0 / (1 + beta0 a0 ln(mu2/mu02))
    a0 = 0.118 / (4 * math.pi)
    a = evolve(a0, 5, 91.2**2, 10.0**2, 1)
    ex = a0 / (1 + beta(5)[0] * a0 * math.log(100.0 / 91.2**2))
    assert abs(a - ex) < 1e-12 * ex, (a, ex)
    # matching is the identity at k=1 up to NLO, and up/down are inverse to the stated order
    assert match(0.02, 0.0, 1, True) == 0.02
    up = match(0.02, 0.7, 2, True)
    assert abs(match(up, 0.7, 2, False) - 0.02) < 100 * 0.02**4  # inverse up to O(a^4) with O(10) coefficients
    return 3
