"""Reference scale-variation coefficients from the renormalisation-group equations.

Conventions (a = alpha_s/4pi at mu_R, L_R = ln(Q2/mu_R2), L_F = ln(Q2/mu_F2), c_k central-scale coefficients):

    da/dL_R = beta0 a^2 + beta1 a^3,      beta0 = 11 - 2 nf/3,  beta1 = 102 - 38 nf/3
    f(Q) = [1 + a L_F P0 + a^2 ( L_F P1 + L_F^2/2 P0 P0 - beta0 (L_R L_F - L_F^2/2) P0 )] f(mu_F)

Demanding dF/dmu_R = dF/dmu_F = 0 order by order for F = sum_k a^k C_k(L_R, L_F) (x) f(mu_F) gives

    C_1 = c1 + L_F c0 P0
    C_2 = c2 + L_F (c1 P0 + c0 P1) + L_F^2 (c0 P0 P0 + beta0 c0 P0)/2 - beta0 L_R C_1
    C_3 = C_3(L_R=0) - L_R (beta1 C_1 + 2 beta0 C_2(L_R=0)) + beta0^2 L_R^2 C_1

i.e. in terms of output keys T(k,0,i,j) (power i of L_R, j of L_F):

    T(1,0,0,1) = c0 P0
    T(2,0,0,1) = c1 P0 + c0 P1          T(2,0,0,2) = (c0 P0 P0 + beta0 c0 P0)/2
    T(2,0,1,j) = -beta0 T(1,0,0,j)
    T(3,0,1,j) = -beta1 T(1,0,0,j) - 2 beta0 T(2,0,0,j)      T(3,0,2,j) = beta0^2 T(1,0,0,j)

"c P" is the composition in flavour (x) x space: (c P)[col, l] = sum_row sum_k c[row, k] M^{row<-col}_{k l},
M^{row<-col}_{kl} = (P_{row<-col} (x) p_l)(x_k) computed with ref_conv on ref_basis.
Flavour structure for nf active flavours (q_i, qbar_i, i <= nf; g):
    P_{q_i<-q_k} = d_ik V + S,  P_{q_i<-qbar_k} = d_ik Vb + Sb,  P_{q_i<-g} = B/(2 nf),  P_{g<-q} = C,  P_{g<-g} = D
    LO : V = P_qq0, Vb = S = Sb = 0, B = P_qg0, C = P_gq0, D = P_gg0
    NLO: V = (P_ns+ + P_ns-)/2, Vb = (P_ns+ - P_ns-)/2, S = Sb = (P_qq1 - P_ns+)/(2 nf), B = P_qg1   (only quark rows are needed: c0 has no gluon row)
    P0P0: V = P_qq0^2, Vb = 0, S = Sb = P_qg0 P_gq0/(2 nf), B = P_qq0 P_qg0 + P_qg0 P_gg0
Heavy-quark rows |pid| > nf (intrinsic channel) take no part in the factorisation-scale terms.
"""
import math

import numpy as np

from . import ref_basis, ref_conv

CF, CA, TR = 4.0 / 3.0, 3.0, 0.5
PIDS = [22, -6, -5, -4, -3, -2, -1, 21, 1, 2, 3, 4, 5, 6]
PIDX = {p: i for i, p in enumerate(PIDS)}


def beta0(nf):
    return 11.0 - 2.0 * nf / 3.0


def beta1(nf):
    return 102.0 - 38.0 * nf / 3.0


# hand-written LO splitting functions (a_s = alpha_s/4pi normalisation) as (reg, sing, delta)
def lo_kernels(nf):
    return {
        "P_qq_0": (lambda z, a: -2.0 * CF * (1.0 + z), lambda z, a: 4.0 * CF / (1.0 - z), 3.0 * CF),
        "P_qg_0": (lambda z, a: 4.0 * nf * TR * (z * z + (1.0 - z) ** 2), None, 0.0),
        "P_gq_0": (lambda z, a: 2.0 * CF * (1.0 + (1.0 - z) ** 2) / z, None, 0.0),
        "P_gg_0": (lambda z, a: 4.0 * CA * (1.0 / z - 2.0 + z * (1.0 - z)), lambda z, a: 4.0 * CA / (1.0 - z), beta0(nf)),
    }


def xmatrix(triple, basis, extra_args=(None, None)):
    """M[k, l] = (P (x) p_l)(x_k) for a (reg, sing, delta) triple."""
    reg, sing, delta = triple
    n = basis.n
    M = np.zeros((n, n))
    for k, xk in enumerate(basis.x):
        if xk >= 1 - ref_conv.EPS_BORDER:
            continue
        for l in range(n):
            sup = basis.support(l)
            if xk >= sup[1]:
                continue
            v, _ = ref_conv.convolve(reg, extra_args[0], sing, extra_args[1], delta, lambda y, l=l: basis.p(l, y), xk, sup, basis.x)
            M[k, l] = v
    return M


def rsl_triple(rsl):
    delta = float(rsl.loc(0.0, rsl.args["loc"])) if rsl.loc is not None else 0.0
    return (rsl.reg, rsl.sing, delta), (rsl.args["reg"], rsl.args["sing"])


class FlavourOperator:
    """Holds the blocks V, Vb, S, Sb, B, C, D (n x n matrices or None) for nf flavours."""

    def __init__(self, nf, n, V=None, Vb=None, S=None, Sb=None, B=None, C=None, D=None):
        self.nf, self.n = nf, n
        z = np.zeros((n, n))
        self.V, self.Vb, self.S, self.Sb = (z if m is None else m for m in (V, Vb, S, Sb))
        self.B, self.C, self.D = (z if m is None else m for m in (B, C, D))

    def apply(self, c):
        """(c P): c is a (14, n) tensor (rows = partons the coefficient couples to), returns (14, n)."""
        nf = self.nf
        out = np.zeros_like(c)
        quarks = [q for q in range(1, nf + 1)]
        cq = {p: c[PIDX[p]] for q in quarks for p in (q, -q)}
        cg = c[PIDX[21]]
        tot = sum(cq.values()) if cq else np.zeros(c.shape[1])
        for q in quarks:
            for s in (1, -1):
                col = s * q
                # rows q_i<-col : same-flavour same-sign (V), same flavour opposite sign (Vb), all quarks (S for same sign type / Sb)
                same_sign = sum(cq[s * k] for k in quarks)
                opp_sign = sum(cq[-s * k] for k in quarks)
                out[PIDX[col]] = cq[col] @ self.V + cq[-col] @ self.Vb + same_sign @ self.S + opp_sign @ self.Sb + cg @ self.C
        out[PIDX[21]] = tot @ (self.B / (2.0 * nf)) + cg @ self.D
        return out


def strip_heavy(c, nf):
    """zero the rows of quarks that are not active (intrinsic heavy-quark rows) and the photon row."""
    c = c.copy()
    for p in PIDS:
        if p == 22 or (p != 21 and abs(p) > nf):
            c[PIDX[p]] = 0.0
    return c


def heavy_rows(nf):
    return [PIDX[p] for p in PIDS if p not in (21, 22) and abs(p) > nf]


def selftest():
    n = 0
    # momentum conservation of the hand-written LO kernels: N=2 moments: P_qq + P_gq = 0, P_qg + P_gg = 0
    for nf in (3, 4, 5, 6):
        k = lo_kernels(nf)
        m = {lab: ref_conv.moment(t[0], None, t[1], None, t[2], 2)[0] for lab, t in k.items()}
        assert abs(m["P_qq_0"] + m["P_gq_0"]) < 1e-9, m
        assert abs(m["P_qg_0"] + m["P_gg_0"]) < 1e-9, m
        # quark number: N=1 of P_qq = 0
        assert abs(ref_conv.moment(k["P_qq_0"][0], None, k["P_qq_0"][1], None, k["P_qq_0"][2], 1)[0]) < 1e-9
        n += 3
    # flavour operator: singlet/gluon bookkeeping with scalar "matrices"
    nf = 3
    one = np.array([[1.0]])
    P = FlavourOperator(nf, 1, V=2 * one, B=6 * one, C=5 * one, D=7 * one)
    c = np.zeros((14, 1))
    c[PIDX[1]] = 1.0
    c[PIDX[21]] = 10.0
    r = P.apply(c)
    assert r[PIDX[1], 0] == 2.0 + 50.0 and r[PIDX[-1], 0] == 50.0 and r[PIDX[2], 0] == 50.0
    assert r[PIDX[21], 0] == 1.0 + 70.0 and r[PIDX[4], 0] == 0.0
    n += 5
    return n
