"""CLI: python -m ymc.cli <ID> [--tier quick|thorough] [--replay path] [--workers N] [--only substr]"""
import argparse
import os
import sys


def main():
    ap = argparse.ArgumentParser()
    ap.add_argument("pid")
    ap.add_argument("--tier", default=os.environ.get("VERIF_TIER", "quick"))
    ap.add_argument("--replay", default=None)
    ap.add_argument("--workers", type=int, default=None)
    ap.add_argument("--only", default=None)
    a = ap.parse_args()
    seed = int(os.environ.get("VERIF_SEED", "0") or 0)
    from ymc import engine

    tier = a.tier if a.tier in ("quick", "thorough") else "quick"
    rc = engine.run_check(a.pid.upper(), tier=tier, seed=seed, workers=a.workers, replay=a.replay, only=a.only)
    sys.exit(rc)


if __name__ == "__main__":
    main()
