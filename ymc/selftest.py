"""Self-tests of the reference models against closed forms (run by setup)."""
import importlib
import pkgutil
import sys

import ymc.ref

fails = 0
n = 0
for m in pkgutil.iter_modules(ymc.ref.__path__):
    mod = importlib.import_module(f"ymc.ref.{m.name}")
    if hasattr(mod, "selftest"):
        try:
            k = mod.selftest()
            n += k or 0
            print(f"selftest ymc.ref.{m.name}: ok ({k} assertions)")
        except AssertionError as e:
            fails += 1
            print(f"selftest ymc.ref.{m.name}: FAILED {e}")
sys.exit(1 if fails else 0)
