#!/bin/bash
# usage: tools/run_all.sh [tier] [seed]  -> runs every check sequentially, prints a summary line per check
TIER=${1:-quick}; SEED=${2:-0}
cd "$(dirname "${BASH_SOURCE[0]}")/.."
for i in $(seq -w 1 20); do
  id=C$i
  s=$(date +%s)
  out=$(VERIF_SEED=$SEED ./check $id --tier $TIER 2>&1); rc=$?
  e=$(date +%s)
  echo "$id rc=$rc $((e-s))s $(echo "$out" | grep "^\[$id\] tier" | cut -c1-170)"
  echo "$out" | grep -E "^(VIOLATION|HARNESS|NONDET)" | cut -c1-300 | head -5
done
