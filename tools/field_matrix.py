#!/usr/bin/env python3
"""Configuration-alphabet coverage matrix from the evidence files.

For every theory/observable card field: the checks whose real runs used >= 2 distinct values of it (with the count).
usage: tools/field_matrix.py [evidence dir]  -> markdown table on stdout
"""
import glob
import json
import os
import sys

d = sys.argv[1] if len(sys.argv) > 1 else os.path.join(os.path.dirname(__file__), "..", "evidence")
fields = {}
const_only = {}
for f in sorted(glob.glob(os.path.join(d, "C*.json"))):
    ev = json.load(open(f))
    pid = ev["property_id"]
    cov = ev["coverage"]
    for k, v in cov.get("card_fields_varied", {}).items():
        fields.setdefault(k, {})[pid] = v["distinct"]
    for k in cov.get("card_fields_constant", {}):
        const_only.setdefault(k, set()).add(pid)
print("| card field | varied by (distinct values) |")
print("|---|---|")
for k in sorted(set(fields) | set(const_only)):
    if k in fields:
        print(f"| {k} | " + ", ".join(f"{p} ({n})" for p, n in sorted(fields[k].items())) + " |")
    else:
        print(f"| {k} | — (constant in every check) |")
