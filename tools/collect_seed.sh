#!/bin/bash
# usage: tools/collect_seed.sh <Cxx> <suffix> <out dir of the sub-agent> [worktree to remove]
# copies patch.diff / demo.py, turns report.json into meta.json, verifies with tools/seed_verify.py, removes the agent's worktree
set -u
P=$1; SFX=$2; OUT=$3; WT=${4:-}
D=/verif/seeded/$P-$SFX
mkdir -p "$D"
cp "$OUT/patch.diff" "$D/patch.diff"
[ -f "$OUT/demo.py" ] && cp "$OUT/demo.py" "$D/demo.py"
/venv/bin/python - "$OUT/report.json" "$D/meta.json" "$P" <<'PY'
import json, sys
try:
    r = json.load(open(sys.argv[1]))
except Exception as e:
    r = {"summary": f"(report.json unreadable: {e})"}
r["property"] = sys.argv[3]
json.dump(r, open(sys.argv[2], "w"), indent=1)
PY
if [ -n "$WT" ]; then git -C /repo worktree remove --force "$WT" >/dev/null 2>&1; rm -rf "$WT" "${WT}_scratch"; fi
cd /verif && /venv/bin/python tools/seed_verify.py "$P-$SFX"
