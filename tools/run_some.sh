#!/bin/bash
# usage: tools/run_some.sh <tier> <seed> <id>...
TIER=$1; SEED=$2; shift 2
cd "$(dirname "${BASH_SOURCE[0]}")/.."
for id in "$@"; do
  s=$(date +%s)
  out=$(VERIF_SEED=$SEED ./check $id --tier $TIER 2>&1); rc=$?
  e=$(date +%s)
  echo "$id rc=$rc $((e-s))s $(echo "$out" | grep "^\[$id\] tier" | cut -c1-170)"
  echo "$out" | grep -E "^(VIOLATION|HARNESS|NONDET)" | cut -c1-300 | head -5
done
