#!/venv/bin/python
"""Systematic first-order mutants of the pure-Python orchestration code, run against the checks that own the file.

usage: tools/mutants.py gen  <out.jsonl> [per_file]      -> list of mutants (file, line, col, old, new, checks)
       tools/mutants.py run  <in.jsonl> <results.jsonl> [start] [stop]
A persistent scratch worktree (/var/tmp/ymutw) is used; the numba cache of the unmodified tree is copied for every
mutant (numba re-validates every entry against the source file stamp, so only the mutated file is recompiled).
Nothing is written to /repo; evidence goes to a scratch directory; replays are ignored.
"""
import ast
import hashlib
import json
import os
import shutil
import subprocess
import sys
import time

REPO = "/repo"
WT = "/var/tmp/ymutw"
CACHE = "/var/tmp/ymut_cache"
FILES = {
    "esf/esf.py": ["C01", "C05", "C14"],
    "esf/conv.py": ["C01", "C19"],
    "esf/scale_variations.py": ["C05"],
    "esf/tmc.py": ["C10", "C16"],
    "esf/exs.py": ["C11"],
    "esf/result.py": ["C17", "C15"],
    "sf.py": ["C14", "C10", "C16"],
    "xs.py": ["C11", "C14", "C16"],
    "runner.py": ["C06", "C11", "C20", "C14"],
    "output.py": ["C15", "C17", "C20"],
    "coefficient_functions/__init__.py": ["C06", "C12", "C07", "C02"],
    "coefficient_functions/coupling_constants.py": ["C02", "C13"],
    "coefficient_functions/kernels.py": ["C02", "C13", "C07"],
    "coefficient_functions/light/kernels.py": ["C02", "C13", "C04", "C07"],
    "coefficient_functions/heavy/kernels.py": ["C09", "C02", "C08", "C07"],
    "coefficient_functions/asy/kernels.py": ["C08", "C07", "C12"],
    "coefficient_functions/intrinsic/kernels.py": ["C08", "C02", "C01"],
    "coefficient_functions/partonic_channel.py": ["C03", "C04", "C08"],
    "coefficient_functions/heavy/partonic_channel.py": ["C09", "C03", "C08"],
    "coefficient_functions/asy/partonic_channel.py": ["C08", "C03"],
    "coefficient_functions/intrinsic/partonic_channel.py": ["C08", "C03"],
    "coefficient_functions/light/f2_nc.py": ["C04", "C03", "C16"],
    "coefficient_functions/heavy/f2_nc.py": ["C09", "C08", "C03"],
    "input/compatibility.py": ["C06", "C12", "C09", "C20", "C07"],
    "observable_name.py": ["C16", "C07", "C14"],
    "coefficient_functions/splitting_functions/__init__.py": ["C05"],
}
CMP = {"<": "<=", "<=": "<", ">": ">=", ">=": ">", "==": "!=", "!=": "=="}
BIN = {"+": "-", "-": "+", "*": "/", "/": "*"}


def _tok_between(src_lines, a, b, table):
    """find the operator token between node a (end) and node b (start); returns (line, col, tok) or None"""
    if a.end_lineno != b.lineno:
        return None
    seg = src_lines[a.end_lineno - 1][a.end_col_offset : b.col_offset]
    for tok in sorted(table, key=len, reverse=True):
        i = seg.find(tok)
        if i >= 0 and seg.strip(" ()") == tok:
            return a.end_lineno, a.end_col_offset + i, tok
    return None


def gen_file(rel):
    path = os.path.join(REPO, "src/yadism", rel)
    src = open(path).read()
    lines = src.split("\n")
    tree = ast.parse(src)
    out = []
    doc_lines = set()
    for node in ast.walk(tree):
        if isinstance(node, (ast.FunctionDef, ast.ClassDef, ast.Module)) and node.body and isinstance(node.body[0], ast.Expr) and isinstance(getattr(node.body[0], "value", None), ast.Constant) and isinstance(node.body[0].value.value, str):
            doc_lines.update(range(node.body[0].lineno, node.body[0].end_lineno + 1))
    for node in ast.walk(tree):
        if getattr(node, "lineno", None) in doc_lines:
            continue
        if isinstance(node, ast.Compare) and len(node.ops) == 1:
            t = _tok_between(lines, node.left, node.comparators[0], CMP)
            if t:
                out.append((t[0], t[1], t[2], CMP[t[2]], "cmp"))
        elif isinstance(node, ast.BinOp) and type(node.op) in (ast.Add, ast.Sub, ast.Mult, ast.Div):
            t = _tok_between(lines, node.left, node.right, BIN)
            if t:
                out.append((t[0], t[1], t[2], BIN[t[2]], "arith"))
        elif isinstance(node, ast.Constant) and isinstance(node.value, int) and not isinstance(node.value, bool) and 0 <= node.value <= 6 and node.lineno == node.end_lineno:
            old = lines[node.lineno - 1][node.col_offset : node.end_col_offset]
            if old == str(node.value):
                out.append((node.lineno, node.col_offset, old, str(node.value + 1), "const"))
        elif isinstance(node, ast.UnaryOp) and isinstance(node.op, ast.Not):
            seg = lines[node.lineno - 1][node.col_offset : node.col_offset + 4]
            if seg == "not ":
                out.append((node.lineno, node.col_offset, "not ", "", "not"))
        elif isinstance(node, ast.Constant) and isinstance(node.value, bool) and node.lineno == node.end_lineno:
            old = lines[node.lineno - 1][node.col_offset : node.end_col_offset]
            out.append((node.lineno, node.col_offset, old, str(not node.value), "bool"))
    out = sorted(set(out))
    return out


def gen(outpath, per_file):
    res = []
    for rel, checks in FILES.items():
        cands = gen_file(rel)
        if not cands:
            continue
        # deterministic spread over the file, one per (line) at most, alternating kinds
        step = max(1, len(cands) // per_file)
        off = int(hashlib.sha1(rel.encode()).hexdigest(), 16) % step
        picked = cands[off::step][:per_file]
        for ln, col, old, new, kind in picked:
            res.append({"file": rel, "line": ln, "col": col, "old": old, "new": new, "kind": kind, "checks": checks, "n_candidates": len(cands)})
    skip = set()
    if os.environ.get("MUT_SKIP"):  # sites of an earlier batch
        skip = {(json.loads(l)["file"], json.loads(l)["line"], json.loads(l)["col"]) for l in open(os.environ["MUT_SKIP"])}
    res = [m for m in res if (m["file"], m["line"], m["col"]) not in skip]
    pre = os.environ.get("MUT_PREFIX", "M")
    with open(outpath, "w") as f:
        for i, m in enumerate(res):
            m["id"] = f"{pre}{i:03d}"
            f.write(json.dumps(m) + "\n")
    print(f"{len(res)} mutants from {len(FILES)} files -> {outpath}")


def tree_hash(src):
    cmd = f"cd {src}/yadism && find . -type f \\( -name '*.py' -o -name '*.npy' \\) -print0 | sort -z | xargs -0 sha256sum | sha256sum | cut -c1-20"
    return subprocess.check_output(["bash", "-c", cmd], text=True).strip()


def sh(cmd, **kw):
    return subprocess.run(cmd, shell=True, text=True, capture_output=True, **kw)


def run(inpath, outpath, start, stop):
    muts = [json.loads(l) for l in open(inpath)]
    if not os.path.isdir(WT):
        r = sh(f"git -C {REPO} worktree add --detach {WT} HEAD")
        assert r.returncode == 0, r.stderr
    os.makedirs(CACHE, exist_ok=True)
    env = dict(os.environ, VERIF_REPO=WT, VERIF_NUMBA_CACHE=CACHE, VERIF_NO_CONFIRM="1", VERIF_NO_SWEEP="1", VERIF_EVIDENCE_DIR="/var/tmp/ymut_ev")
    base_h = tree_hash(WT + "/src")
    if not os.path.exists(f"{CACHE}/{base_h}/.warm"):
        subprocess.run(["/verif/check", "--warm"], env=env, capture_output=True)
        # run the cheapest check once to populate more of the cache
        subprocess.run(["/verif/check", "C06"], env=env, capture_output=True)
    done = set()
    if os.path.exists(outpath):
        done = {json.loads(l)["id"] for l in open(outpath)}
    for m in muts[start:stop]:
        if m["id"] in done:
            continue
        path = os.path.join(WT, "src/yadism", m["file"])
        orig = open(path).read()
        lines = orig.split("\n")
        l = lines[m["line"] - 1]
        assert l[m["col"] : m["col"] + len(m["old"])] == m["old"], (m, l)
        lines[m["line"] - 1] = l[: m["col"]] + m["new"] + l[m["col"] + len(m["old"]) :]
        rec = dict(m, source_line=l.strip(), mutated_line=lines[m["line"] - 1].strip())
        t0 = time.time()
        try:
            open(path, "w").write("\n".join(lines))
            r = sh(f"/venv/bin/python -c \"import ast,sys; ast.parse(open('{path}').read())\"")
            if r.returncode != 0:
                rec["status"] = "syntax"
                continue
            h = tree_hash(WT + "/src")
            os.utime(f"{CACHE}/{base_h}")
            if not os.path.isdir(f"{CACHE}/{h}"):
                shutil.copytree(f"{CACHE}/{base_h}", f"{CACHE}/{h}")
            rec["status"] = "survived-checks"
            rec["runs"] = []
            for cid in m["checks"]:
                t1 = time.time()
                try:
                    r = subprocess.run(["/verif/check", cid], env=env, capture_output=True, text=True, timeout=1500)
                    rc, outp = r.returncode, r.stdout + r.stderr
                except subprocess.TimeoutExpired:
                    rc, outp = 124, "TIMEOUT"
                first = next((x for x in outp.splitlines() if x.startswith(("VIOLATION", "HARNESS", "NONDET"))), "")
                rec["runs"].append({"check": cid, "rc": rc, "s": round(time.time() - t1), "first": first[:300]})
                if rc != 0:
                    rec["status"] = f"killed-by-{cid}" if rc == 1 else f"check-error-{cid}-rc{rc}"
                    break
            shutil.rmtree(f"{CACHE}/{h}", ignore_errors=True)
        finally:
            open(path, "w").write(orig)
            rec["wall"] = round(time.time() - t0)
            with open(outpath, "a") as f:
                f.write(json.dumps(rec) + "\n")
            print(rec["id"], rec["file"], rec["line"], repr(rec["old"]), "->", repr(rec["new"]), rec.get("status"), rec["wall"], flush=True)


if __name__ == "__main__":
    if sys.argv[1] == "gen":
        gen(sys.argv[2], int(sys.argv[3]) if len(sys.argv) > 3 else 3)
    else:
        run(sys.argv[2], sys.argv[3], int(sys.argv[4]) if len(sys.argv) > 4 else 0, int(sys.argv[5]) if len(sys.argv) > 5 else None)
