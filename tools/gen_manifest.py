"""Generate MANIFEST.json from the property modules (run: ./check --manifest)."""
import importlib
import json
import os
import sys

VERIF = os.path.dirname(os.path.dirname(os.path.abspath(__file__)))
sys.path.insert(0, VERIF)
ALL = [f"C{i:02d}" for i in range(1, 21)]
BASELINE = "cd /repo && /venv/bin/python -m pytest -ra -q -p no:cacheprovider --timeout=900 --continue-on-collection-errors"

checks = []
na = []
for pid in ALL:
    path = os.path.join(VERIF, "ymc", "props", pid.lower() + ".py")
    if not os.path.exists(path):
        na.append({"property_id": pid, "reason": "check not built yet in this session (work in progress; designed in DESIGN.md section 4)"})
        continue
    m = importlib.import_module(f"ymc.props.{pid.lower()}")
    if getattr(m, "NOT_APPLICABLE", None):
        na.append({"property_id": pid, "reason": m.NOT_APPLICABLE})
        continue
    checks.append(
        {
            "property_id": pid,
            "quick_cmd": f"./check {pid} --tier quick",
            "thorough_cmd": f"./check {pid} --tier thorough",
            "evidence_file": f"/verif/evidence/{pid}.json",
            "replay_cmd_template": f"./check {pid} --replay {{path}}",
            "engine": "ymc",
            "level_claimed": {"category": "model_checking", "text": m.LEVEL_TEXT, "design_ref": f"DESIGN.md section 4 / {pid}"},
            "level_note": m.LEVEL_NOTE,
            "technique": m.TECHNIQUE,
        }
    )

manifest = {
    "version": 1,
    "setup_cmd": "./setup.sh",
    "hooks": {
        "guard": "YADISM_VERIF",
        "enable": "no hooks are needed: every observation point is reachable by attribute access; checks export YADISM_VERIF=1 but /repo contains no guarded code",
        "baseline_off_cmd": BASELINE,
        "source_commits": [],
        "add_only": True,
    },
    "engines": [
        {
            "name": "ymc",
            "path": "/verif/ymc",
            "serves_properties": [c["property_id"] for c in checks],
            "kind_free_text": "hand-written bounded-exhaustive explorer for Python: LatticeExplorer (complete enumeration of finite configuration x kinematics lattices, state-by-state conformance of the real yadism to executable reference models), relation explorer (tuples of runs), HistoryExplorer (breadth-first explicit-state search over operation sequences on live Runner/Output objects)",
        }
    ],
    "checks": checks,
    "not_applicable": na,
    "notes": "All checks run /venv/bin/python against the sources of $VERIF_REPO (default /repo) with a numba cache keyed by a hash of the source tree. Genuine defects found are in known_findings.json (open = reported as KNOWN-FINDING, fixed = repaired by a 'fix:' commit in /repo).",
}
with open(os.path.join(VERIF, "MANIFEST.json"), "w") as f:
    json.dump(manifest, f, indent=1)
import jsonschema

jsonschema.validate(manifest, json.load(open("/root/.vp/MANIFEST.schema.json")))
print(f"MANIFEST.json: {len(checks)} checks, {len(na)} not_applicable")
