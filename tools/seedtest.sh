#!/bin/bash
# usage: tools/seedtest.sh <dir with patch.diff [demo.py]> [--no-baseline] <check id>...
# Applies the patch to a scratch worktree of /repo HEAD, verifies demo (fails patched / passes unpatched),
# the baseline tests, and runs the given checks (quick) against the patched tree. Removes the worktree.
set -u
D="$(cd "$1" && pwd)"; shift
BASE=1
if [ "${1:-}" = "--no-baseline" ]; then BASE=0; shift; fi
WT=/var/tmp/ymut_$$
git -C /repo worktree add --detach "$WT" HEAD >/dev/null 2>&1 || exit 9
trap 'git -C /repo worktree remove --force "$WT" >/dev/null 2>&1; rm -rf "$WT"' EXIT
export YADISM_SILENT_MODE=1 YADISM_LOG_LEVEL=50 PYTHONWARNINGS=ignore
if [ -f "$D/demo.py" ]; then
  NUMBA_CACHE_DIR=$WT/.nb0 PYTHONPATH=$WT/src /venv/bin/python "$D/demo.py" >/var/tmp/demo_un_$$.log 2>&1; echo "demo unpatched: exit $? ($(tail -1 /var/tmp/demo_un_$$.log | cut -c1-100))"
  rm -rf $WT/.nb0
fi
git -C "$WT" apply "$D/patch.diff" || { echo "PATCH DOES NOT APPLY"; exit 8; }
if [ -f "$D/demo.py" ]; then
  NUMBA_CACHE_DIR=$WT/.nb1 PYTHONPATH=$WT/src /venv/bin/python "$D/demo.py" >/var/tmp/demo_p_$$.log 2>&1; echo "demo patched: exit $? ($(tail -1 /var/tmp/demo_p_$$.log | cut -c1-100))"
  rm -rf $WT/.nb1
fi
if [ $BASE = 1 ]; then
  /venv/bin/python /verif/tools/baseline.py "$WT" 2>&1 | tail -4
fi
for id in "$@"; do
  out=$(VERIF_REPO=$WT VERIF_NO_CONFIRM=1 VERIF_EVIDENCE_DIR=/var/tmp/ev_$$ /verif/check $id --tier ${SEED_TIER:-quick} 2>&1)
  rc=$?
  echo "check $id: exit $rc"
  echo "$out" | grep -E "^(VIOLATION|KNOWN|HARNESS|NONDET|\[$id\])" | cut -c1-400 | head -6
done
rm -rf /var/tmp/ev_$$ /var/tmp/demo_un_$$.log /var/tmp/demo_p_$$.log
