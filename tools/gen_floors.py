#!/usr/bin/env python3
"""Vacuity floors from evidence files of runs on the unchanged tree: floor = 80 % of the measured number of non-trivial states.

usage: tools/gen_floors.py <evidence dir> [<evidence dir> ...]   (each file contributes its own tier) -> writes nontrivial_floor.json
The file is committed; the engine only reads it.
"""
import glob
import json
import os
import sys

here = os.path.dirname(os.path.dirname(os.path.abspath(__file__)))
path = os.path.join(here, "nontrivial_floor.json")
floors = json.load(open(path)) if os.path.exists(path) else {}
for d in sys.argv[1:]:
    for f in sorted(glob.glob(os.path.join(d, "C*.json"))):
        ev = json.load(open(f))
        if not ev["coverage"].get("exhaustive"):
            continue
        floors.setdefault(ev["property_id"], {})[ev["tier"]] = int(0.8 * ev["coverage"]["distinct_nontrivial"])
        # counters of *decided* states where "non-trivial" also counts explicit rejections (C16: finite non-zero results)
        cnt = {k: int(0.8 * v) for k, v in ev["coverage"].get("measured", {}).items() if k in ("n_ok_nonzero",)}
        if cnt:
            floors[ev["property_id"]][ev["tier"] + ":counters"] = cnt
json.dump(floors, open(path, "w"), indent=1, sort_keys=True)
print(json.dumps(floors, sort_keys=True))
