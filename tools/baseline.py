"""Run the repository's baseline test command against a source tree and compare with BASELINE.json.

usage: /venv/bin/python tools/baseline.py [repo_dir]   -> exit 0 iff all 84 stable tests pass
"""
import json
import os
import subprocess
import sys
import tempfile
import xml.etree.ElementTree as ET

repo = sys.argv[1] if len(sys.argv) > 1 else "/repo"
base = json.load(open("/root/.vp/BASELINE.json"))
stable = set(base["stable_pass"])
with tempfile.TemporaryDirectory(dir="/var/tmp") as td:
    xml = os.path.join(td, "j.xml")
    env = dict(os.environ)
    env["PYTHONPATH"] = os.path.join(repo, "src")
    for k in [k for k in env if k.startswith("YADISM_") or k in ("PYTHONWARNINGS",)]:
        env.pop(k)
    env["NUMBA_CACHE_DIR"] = os.path.join(td, "nb") if repo != "/repo" else env.get("NUMBA_CACHE_DIR", "")
    if not env["NUMBA_CACHE_DIR"]:
        env.pop("NUMBA_CACHE_DIR")
    p = subprocess.run(
        ["/venv/bin/python", "-m", "pytest", "-ra", "-q", "-p", "no:cacheprovider", "--timeout=900",
         "--continue-on-collection-errors", f"--junitxml={xml}"] + sys.argv[2:],
        cwd=repo, env=env, capture_output=True, text=True)
    passed = set()
    failed = set()
    for tc in ET.parse(xml).getroot().iter("testcase"):
        name = f"{tc.get('classname')}::{tc.get('name')}"
        bad = any(c.tag in ("failure", "error", "skipped") for c in tc)
        (failed if bad else passed).add(name)
missing = sorted(stable - passed)
# hypothesis-driven tests in tests/yadism/test_runner.py are flaky (BASELINE.json lists two of them): re-run what is missing once
if missing and len(missing) <= 5:
    ids = []
    for m in missing:
        cls, name = m.split("::")
        parts = cls.split(".")
        # tests.yadism.test_runner.TestRunner -> tests/yadism/test_runner.py::TestRunner::name
        if parts[-1][:1].isupper():
            ids.append("/".join(parts[:-1]) + ".py::" + parts[-1] + "::" + name)
        else:
            ids.append("/".join(parts) + ".py::" + name)
    env2 = dict(os.environ)
    env2["PYTHONPATH"] = os.path.join(repo, "src")
    for k in [k for k in env2 if k.startswith("YADISM_") or k in ("PYTHONWARNINGS",)]:
        env2.pop(k)
    import shutil

    shutil.rmtree(os.path.join(repo, ".hypothesis"), ignore_errors=True)  # hypothesis replays a failing example from its database
    p2 = subprocess.run(["/venv/bin/python", "-m", "pytest", "-q", "-p", "no:cacheprovider", "--timeout=900", "--hypothesis-seed=1"] + ids, cwd=repo, env=env2, capture_output=True, text=True)
    if p2.returncode == 0:
        flaky_note = f" ({len(missing)} of them only on an immediate re-run: flaky hypothesis test {', '.join(m.split('::')[-1] for m in missing)})"
        missing = []
print(f"baseline on {repo}: {len(passed)} passed, {len(failed)} failed/error; stable passing {len(stable) - len(missing)}/{len(stable)}" + (flaky_note if not missing and "flaky_note" in dir() else ""))
for m in missing:
    print("  NOT PASSING:", m)
sys.exit(0 if not missing else 1)
