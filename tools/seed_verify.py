"""Re-verify every seeded change and record what was run in seeded/<id>/meta.json["verification"].

usage: /venv/bin/python tools/seed_verify.py [seed-id ...]
"""
import json
import os
import re
import subprocess
import sys
import time

VERIF = os.path.dirname(os.path.dirname(os.path.abspath(__file__)))
EXTRA = {"C01-g": ["C03"], "C19-g": ["C17"], "C13-g": ["C11"], "C09-f": ["C01"], "C09-c": ["C06"], "C19-c": ["C01"], "C01-c": ["C19"], "C01-b": ["C14"], "C03-a": ["C01"], "C06-a": ["C05"], "C19-a": ["C01"], "C20-a": ["C14"], "C16-b": ["C14"], "C05-b": ["C14"]}
NOBASE = "--no-baseline" in sys.argv  # re-verification of seeds whose baseline result is already recorded: keep the recorded baseline line
sys.argv = [a for a in sys.argv if a != "--no-baseline"]
ids = sys.argv[1:] or sorted(d for d in os.listdir(os.path.join(VERIF, "seeded")) if re.match(r"C\d\d-", d))
head = subprocess.run(["git", "-C", "/repo", "rev-parse", "--short", "HEAD"], capture_output=True, text=True).stdout.strip()
for sid in ids:
    d = os.path.join(VERIF, "seeded", sid)
    prop = sid.split("-")[0]
    checks = [prop] + EXTRA.get(sid, [])
    t0 = time.time()
    p = subprocess.run([os.path.join(VERIF, "tools", "seedtest.sh"), d] + (["--no-baseline"] if NOBASE else []) + checks, capture_output=True, text=True)
    out = p.stdout
    ver = {"repo_head": head, "command": f"tools/seedtest.sh seeded/{sid} {' '.join(checks)}", "wall_s": round(time.time() - t0), "checks": {}}
    for line in out.splitlines():
        if line.startswith("demo unpatched"):
            ver["demo_unpatched"] = line[len("demo unpatched: "):][:160]
        elif line.startswith("demo patched"):
            ver["demo_patched"] = line[len("demo patched: "):][:160]
        elif line.startswith("baseline on"):
            ver["baseline"] = line.split(": ", 1)[1][:160]
        elif "flaky" in line:
            ver["baseline"] = ver.get("baseline", "") + " " + line.strip()
        elif line.startswith("PATCH DOES NOT APPLY"):
            ver["patch"] = "does not apply to the current HEAD"
        m = re.match(r"check (C\d\d): exit (\d+)", line)
        if m:
            cur = m.group(1)
            ver["checks"][cur] = {"exit": int(m.group(2)), "lines": []}
        elif line.startswith(("VIOLATION", "[C")) and ver["checks"]:
            ver["checks"][cur]["lines"].append(line[:260])
    mp = os.path.join(d, "meta.json")
    meta = json.load(open(mp))
    if NOBASE and "baseline" not in ver and isinstance(meta.get("verification"), dict) and meta["verification"].get("baseline"):
        ver["baseline"] = meta["verification"]["baseline"] + " (recorded by an earlier verification of the same patch)"
    meta["verification"] = ver
    json.dump(meta, open(mp, "w"), indent=1)
    print(sid, {k: v["exit"] for k, v in ver["checks"].items()}, ver.get("baseline", "")[:60], ver.get("demo_unpatched", "")[:20], "|", ver.get("demo_patched", "")[:20], flush=True)
